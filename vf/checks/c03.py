"""C03 — successful runs yield compilable, linkable code with unique wrapper symbols.

specs: HashNames (hash_function_signature over abstract hash functions: emitted names pairwise
distinct and frozen for every insertion order and every pair of hash functions), OptLattice (the
option x construct-feature lattice; TLC computes a pairwise covering array of it).
binding: every row of the array -> generated library (one or two per module) -> interrogate
(-> interrogate_module) -> g++ -fsyntax-only against the original headers -> compile + link
(+ nm: every wrapper the database names is defined exactly once; unique names distinct) ->
import of the Python modules.  Adversarially named collision libraries (names found with a
Python port of hash_string, asserted against the H-hash hook) go through all back-ends, and
the H-hash trace of every run is validated against HashNamesTrace."""
import collections, json, os, random, re, shutil, subprocess, sys, sysconfig
from ..common import MachineryError, REPO, SHIMS, NCPU
from .. import build, tlc, run, idb

BACKENDS = {1: "-c", 2: "-python", 3: "-python-native"}
NAMING = {1: "-fnames", 2: "-fptrs", 3: None}
FLAGS = {"string": "-string", "true_names": "-true-names", "unique_names": "-unique-names", "nodb": "-nodb",
         "do_module": "-do-module", "promiscuous": "-promiscuous", "nomangle": "-nomangle", "assert": "-assert"}
FEATURES = ["f_keywords", "f_operators", "f_strdefault", "f_macros", "f_nested", "f_enumdefault", "f_stdstring",
            "f_conversions", "f_hierarchy", "f_datamembers"]
PYINC = sysconfig.get_paths()["include"]
PYLIBDIR = sysconfig.get_config_var("LIBDIR")
PYVER = "python%d.%d" % sys.version_info[:2]
IDENT = re.compile(r"^[A-Za-z_][A-Za-z0-9_]*$")


# ---------------------------------------------------------------------------------------------
# hash_string / hash_function_signature, ported (interrogateBuilder.cxx, interfaceMaker.cxx)
def hash24(name, off):
    h = shift = 0
    for ch in name.encode("latin-1"):
        sc = (ch << shift) & 0xffffff
        if shift > 16:
            sc |= (ch >> (24 - shift)) & 0xff
        h = (h + sc) & 0xffffff
        shift = (shift + off) % 24
    prod = h * 4999
    return (prod ^ (prod >> 24)) & 0xffffff


def hash_string(name, off):
    h, r = hash24(name, off), ""
    for _ in range(4):
        v = h & 0x3f
        h >>= 6
        r += chr(65 + v) if v < 26 else chr(97 + v - 26) if v < 52 else chr(48 + v - 52) if v < 62 else "_"
    return r


def find_collisions(cls, tier):
    """Method names of class `cls` whose signatures "<cls>::<name>(int)" collide:
    h5-only pairs and triples by a birthday search (fixed seed: the names are part of the check, not
    of the seed), h5+h11 pairs / triples by construction (characters 24 positions apart get the same
    shift in both hash functions, so permuting them changes neither hash)."""
    rnd = random.Random(20261002)
    seen = collections.defaultdict(list)
    alpha = "abcdefghijklmnopqrstuvwxyz"
    n, want = 0, (160000 if tier == "thorough" else 60000)
    sig = lambda nm: "%s::%s(int)" % (cls, nm)
    while n < want:
        nm = "q" + "".join(rnd.choice(alpha) for _ in range(7))
        k = hash_string(sig(nm), 5)
        if nm not in seen[k]:
            seen[k].append(nm)
            n += 1
    groups = [v for v in seen.values() if len(v) >= 2]
    # h5 collides, h11 does not
    only5 = [v for v in groups if len({hash_string(sig(x), 11) for x in v}) == len(v)]
    pairs = sorted(v for v in only5 if len(v) == 2)[:2 if tier == "quick" else 6]
    triples = sorted(v for v in only5 if len(v) >= 3)[:1 if tier == "quick" else 4]
    pad = "x" * 23
    both2 = ["w" + a + pad + b + "z" for a, b in ("ab", "ba")]
    both3 = ["v" + p[0] + pad + p[1] + pad + p[2] + "z" for p in ("abc", "bca", "cab")]
    for g in (both2, both3):
        assert len({(hash_string(sig(x), 5), hash_string(sig(x), 11)) for x in g}) == 1, g
    return dict(pairs=pairs, triples=triples, both=[both2, both3])


# ---------------------------------------------------------------------------------------------
# library renderer
HEAD = """#ifndef %(G)s
#define %(G)s
#ifdef CPPPARSER
#define PUBLISHED __published
#define BEGIN_PUBLISH __begin_publish
#define END_PUBLISH __end_publish
#else
#define PUBLISHED public
#define BEGIN_PUBLISH
#define END_PUBLISH
#endif
"""


# functions whose DEFAULT ARGUMENT python-native re-emits as code: (name, parameter list, body expression).
# Every f has a companion f_native() that calls f() in C++, i.e. with the value the compiler passes.
DEFAULTS = [
    ("s1", 'const char *s = "C:\\\\"', "vsum%(t)s(s)"),
    ("s2", 'const char *s = "a\\\\\\"b"', "vsum%(t)s(s)"),
    ("s3", 'const char *s = "caf\\xc3\\xa9"', "vsum%(t)s(s)"),
    ("s4", 'const char *s = "x\\n\\ty\\\\"', "vsum%(t)s(s)"),
    ("c1", "char q = '\\'', char b = '\\\\', char n = '\\n'", "q * 65536 + b * 256 + n"),
    ("n1", "int v = -(-1)", "v"),
    ("n2", "int v = 3 - -2, int w = +(+4)", "v * 16 + w"),
    ("n3", "long long v = -9223372036854775807LL, unsigned u = 4294967295U", "(int)((v %% 1000) + (u %% 1000))"),
    ("e1", "Mode m = Mode::on", "(int)m"),
    ("e2", "DOther%(t)s::Mode m = DOther%(t)s::Mode::on, DOther%(t)s::Plain p = DOther%(t)s::p_b", "(int)m * 8 + (int)p"),
    ("k1", "int v = DOther%(t)s::kLimit", "v"),
    ("f1", 'int v = DOther%(t)s::make(1, "x")', "v"),
    ("b1", "bool a = true, double d = -2.5, float f = 1e3f", "(int)(a + d * 4 + f)"),
]
DEFAULTS_STR = [
    ("t1", "std::string s = kName%(t)s", "vsum%(t)s(s.c_str())"),
    ("t2", 'std::string s = std::string("abc")', "vsum%(t)s(s.c_str())"),
    ("t3", 'const std::string &s = "li\\\\t\\""', "vsum%(t)s(s.c_str())"),
    ("t4", "std::string s = DOther%(t)s::name()", "vsum%(t)s(s.c_str())"),
]


def render_defaults(t, with_string, extra=()):
    L = ["""class DOther%(t)s {
PUBLISHED:
  DOther%(t)s() {}
  enum class Mode { off, on = 3 };
  enum Plain { p_a, p_b = 6 };
  static const int kLimit = 17;
  static int make(int a, const char *s) { return a + s[0]; }
  static const char *name() { return "nm"; }
};
static const char *const kName%(t)s = "kn";
inline int vsum%(t)s(const char *s) { int h = 7; for (; *s; ++s) { h = (h * 31 + (unsigned char)*s) & 0xffffff; } return h; }
class Dflt%(t)s {
PUBLISHED:
  Dflt%(t)s() {}
  enum class Mode { off, on = 3 };""" % dict(t=t)]
    for name, params, body in list(DEFAULTS) + (DEFAULTS_STR if with_string else []) + list(extra):
        rt = "unsigned long long" if name.startswith("u") else "int"
        L.append("  %s %s(%s) const { return %s; }" % (rt, name, params % dict(t=t), body % dict(t=t)))
        L.append("  %s %s_native() const { return %s(); }" % (rt, name, name))
    L.append("};")
    return "\n".join(L)


def render_library(tag, feats, other=None, collisions=None, overloads=True, xinherit=0, index=0, prev=None):
    """One generated library.  Everything is defined inline so that the header is all a link needs.
    tag: suffix that makes names unique within a module; feats: set of feature names; other: tag of
    the library whose Base class this one refers to (several libraries per module); xinherit / index / prev:
    the inheritance chain across libraries (library `index` of the module, `prev` the tag of the one before)."""
    t = tag
    L = [HEAD % dict(G="LIB_%s_H" % t)]
    if "f_stdstring" in feats or "f_strdefault" in feats:
        L.append("#include <string>")
    if other:
        L.append('#include "lib_%s.h"' % (prev or other))
    if "f_macros" in feats:
        L += ["#define VM%s_INT 42" % t, "#define VM%s_NEG (-7)" % t, "#define VM%s_FLT 1.5" % t,
              '#define VM%s_STR "str\\"q\\\\uote"' % t, "#define VM%s_EXPR (1 << 4)" % t,
              "#define VM%s_CHR 'c'" % t, "#define VM%s_EMPTY" % t, "#define VM%s_FN(x) ((x) + 1)" % t]
    L.append("enum Color%s { red%s, green%s = 5, blue%s };" % (t, t, t, t))
    if "f_nested" in feats:
        L.append("""namespace ns%(t)s {
  class Outer {
  PUBLISHED:
    Outer() : _e(e2) {}
    enum E { e1, e2 = 4 };
    class Inner {
    PUBLISHED:
      Inner() : _v(3) {}
      int v() const { return _v; }
      typedef int Count;
      Count count(Count c) const { return c + _v; }
    private:
      int _v;
    };
    typedef Inner *InnerPtr;
    Inner make_inner() const { return Inner(); }
    int take_inner(const Inner &i) const { return i.v(); }
    int take_ptr(InnerPtr p) const { return p ? p->v() : 0; }
    E get_e() const { return _e; }
    void set_e(E e) { _e = e; }
  private:
    E _e;
  };
  inline int free_in_ns(const Outer::Inner &i, Outer::E e) { return i.v() + (int)e; }
}""" % dict(t=t))
    L.append("class Base%s {\nPUBLISHED:" % t)
    L.append("  Base%(t)s() : _v(0) {}\n  virtual ~Base%(t)s() {}" % dict(t=t))
    if overloads:
        L.append("  explicit Base%(t)s(int v) : _v(v) {}" % dict(t=t))
        L.append("  virtual int get(int k = 3) const { return _v + k; }")
        L.append("  int over(int a) { return a; }\n  int over(double a) { return (int)a + 1; }\n"
                 "  int over(int a, int b) { return a + b; }")
    else:
        L.append("  virtual int get(int k) const { return _v + k; }")
    L.append("  void set(int v) { _v = v; }\n  static int twice(int x) { return 2 * x; }\n"
             "  double ratio(float f, double d, bool flag) const { return flag ? f * d : 0.0; }\n"
             "  long long big(unsigned long long u, short s, unsigned char c) const { return (long long)u + s + c; }\n"
             "  const char *label() const { return \"base\"; }\n"
             "  Color%(t)s col(Color%(t)s c) const { return c; }" % dict(t=t))
    if "f_keywords" in feats:
        # Python keywords and builtins (valid C++ identifiers) as method and parameter names
        L.append("  int def(int lambda) { return lambda; }\n  int pass() const { return 1; }\n"
                 "  int from(int import, int global) { return import + global; }\n"
                 "  int is(int None, int True) const { return None + True; }\n"
                 "  int print(int yield, int del = 2) { return yield + del; }\n"
                 "  int in(int with, int elif) { return with - elif; }\n"
                 "  int raise(int except, int exec) { return except * exec; }\n"
                 "  static int nonlocal(int async, int await) { return async + await; }")
    if "f_operators" in feats:
        L.append("  Base%(t)s(const Base%(t)s &o) : _v(o._v) {}\n"
                 "  Base%(t)s &operator = (const Base%(t)s &o) { _v = o._v; return *this; }\n"
                 "  bool operator == (const Base%(t)s &o) const { return _v == o._v; }\n"
                 "  bool operator != (const Base%(t)s &o) const { return _v != o._v; }\n"
                 "  bool operator < (const Base%(t)s &o) const { return _v < o._v; }\n"
                 "  Base%(t)s operator + (const Base%(t)s &o) const { Base%(t)s r; r._v = _v + o._v; return r; }\n"
                 "  Base%(t)s operator - () const { Base%(t)s r; r._v = -_v; return r; }\n"
                 "  Base%(t)s &operator += (int d) { _v += d; return *this; }\n"
                 "  int operator [] (int i) const { return _v + i; }\n"
                 "  int operator () (int a, int b) const { return _v + a + b; }\n"
                 "  operator int () const { return _v; }\n"
                 "  operator bool () const { return _v != 0; }\n"
                 "  Base%(t)s &operator ++ () { ++_v; return *this; }\n"
                 "  int operator ~ () const { return ~_v; }" % dict(t=t))
    if "f_strdefault" in feats:
        L.append("  int sdef(const char *s = \"a\\\"b\\\\c\") const { return s[0]; }\n"
                 "  int cdef(char q = '\\'', char b = '\\\\', char n = '\\n', char z = '\\0') const { return q + b + n + z; }\n"
                 "  int tdef(const char *t = \"tab\\there %%d %%s\", const char *e = \"\") const { return t[0] + e[0]; }\n"
                 "  int slash(const char *c = \"/* not a comment */ // nor this\") const { return c[0]; }")
    if "f_enumdefault" in feats:
        L.append("  enum Mode%(t)s { m_off, m_on = 3 };\n"
                 "  int edef(Color%(t)s c = blue%(t)s) const { return (int)c; }\n"
                 "  int mdef(Mode%(t)s m = m_on) const { return (int)m; }" % dict(t=t))
        if "f_nested" in feats:
            L.append("  int ndef(ns%(t)s::Outer::E e = ns%(t)s::Outer::e2) const { return (int)e; }" % dict(t=t))
    if "f_stdstring" in feats:
        L.append("  std::string name(const std::string &prefix) const { return prefix + \"B\"; }\n"
                 "  void set_name(std::string s) { _v = (int)s.size(); }\n"
                 "  const std::string &get_ref() const { static std::string r = \"ref\"; return r; }\n"
                 "  int two(const std::string &a, const std::string &b) const { return (int)(a.size() + b.size()); }")
        if "f_strdefault" in feats:
            L.append("  int qdef(const std::string &s = \"q\\\"uote\") const { return (int)s.size(); }")
    if collisions:
        for grp in collisions["pairs"] + collisions["triples"] + collisions["both"]:
            for nm in grp:
                L.append("  int %s(int a) { return a; }" % nm)
    L.append("public:\n  int hidden() { return 1; }\n  int _v;\n};")
    if "f_strdefault" in feats:
        L.append(render_defaults(t, "f_stdstring" in feats))
    if "f_datamembers" in feats:
        L.append("""typedef const int DCInt%(t)s;
typedef int DPInt%(t)s;
struct DataM%(t)s {
PUBLISHED:
#ifdef CPPPARSER
  DataM%(t)s();      // (interrogate does not parse a nested brace initialiser in a mem-initializer list: C06's business)
#else
  DataM%(t)s() : ci(4), ri(plain), cp("x"), tab{1, 2, 3}, name{'a', 0}, ct{5, 6}, cd(7), cgrid{{1, 2}, {3, 4}}, en(e_b), bits(2) { }
#endif
  enum E { e_a, e_b = 2 };
  int plain;
  const int ci;
  int &ri;
  const char *cp;
  int *ip;
  const int tab[3];
  const char name[8];
  DCInt%(t)s ct[2];
  DCInt%(t)s cd;
  DPInt%(t)s pd;
  int viatypedef(DPInt%(t)s x, DCInt%(t)s y) const { return x + y; }
  const int cgrid[2][2];
  static const int sc = 3;
  mutable int mu;
  E en;
  unsigned bits : 3;
};""" % dict(t=t))
    if "f_hierarchy" in feats:
        L.append("""class HNode%(t)s {
PUBLISHED:
  HNode%(t)s() {}
  virtual ~HNode%(t)s() {}
  int node() const { return 1; }
};
class HOther%(t)s {
PUBLISHED:
  HOther%(t)s() {}
  virtual ~HOther%(t)s() {}
  int other() const { return 2; }
};
class HLeft%(t)s : virtual public HNode%(t)s {
PUBLISHED:
  HLeft%(t)s() {}
  int left() const { return 3; }
};
class HRight%(t)s : public HOther%(t)s, virtual public HNode%(t)s {
PUBLISHED:
  HRight%(t)s() {}
  int right() const { return 4; }
};
class HDiamond%(t)s : public HLeft%(t)s, public HRight%(t)s {
PUBLISHED:
  HDiamond%(t)s() {}
  int dia() const { return 5; }
  HNode%(t)s *as_node() { return this; }
};
class HProt%(t)s : protected HNode%(t)s, public HOther%(t)s {
PUBLISHED:
  HProt%(t)s() {}
  int prot() const { return 6; }
};
class HPriv%(t)s : private HOther%(t)s {
PUBLISHED:
  HPriv%(t)s() {}
  int priv() const { return 7; }
};""" % dict(t=t))
    if "f_conversions" in feats:
        # types that are printed inside wrapper BODIES (casts of conversion operators, temporaries for
        # by-value parameters and results, default-argument expressions, new T(...)), declared in a
        # namespace, nested in a class, behind a typedef, as enum and as pointer
        L.append("""namespace cv%(t)s {
  struct Meters {
  PUBLISHED:
    Meters() : v(0) {}
    double v;
  };
  struct Feet {
  PUBLISHED:
    Feet() : v(0) {}
    double v;
  };
  typedef Feet FeetT;
  enum Kind { k_metric, k_imperial = 4 };
  namespace detail {
    class Exact {
    PUBLISHED:
      Exact() : num(1), den(1) {}
      Exact(long n, long d) : num(n), den(d) {}
      long num;
      long den;
    };
  }
}
class Conv%(t)s {
PUBLISHED:
  Conv%(t)s() : _n(2) {}
  struct Raw {
  PUBLISHED:
    Raw() : n(0) {}
    int n;
  };
  enum Sign { s_neg = -1, s_zero, s_pos };
  typedef Raw RawT;
  operator cv%(t)s::Meters () const { return cv%(t)s::Meters(); }
  operator cv%(t)s::FeetT () const { return cv%(t)s::Feet(); }
  operator cv%(t)s::Kind () const { return cv%(t)s::k_imperial; }
  operator cv%(t)s::detail::Exact () const { return cv%(t)s::detail::Exact(_n, 1); }
  operator const cv%(t)s::detail::Exact * () const { return &_exact; }
  operator Raw () const { return _raw; }
  operator const Raw * () const { return &_raw; }
  operator Sign () const { return s_pos; }
  cv%(t)s::Meters scale(cv%(t)s::Meters m, cv%(t)s::Kind k = cv%(t)s::k_imperial) const { m.v *= (int)k; return m; }
  RawT raw(RawT r = Raw(), Sign s = s_pos) const { r.n += (int)s; return r; }
  cv%(t)s::detail::Exact exact(const cv%(t)s::detail::Exact &e = cv%(t)s::detail::Exact(1, 3)) const { return e; }
  static cv%(t)s::detail::Exact *make_exact(long n, long d) { return new cv%(t)s::detail::Exact(n, d); }
  const cv%(t)s::FeetT &feet() const { return _feet; }
  cv%(t)s::Kind kind(const cv%(t)s::Kind &k) const { return k; }
private:
  int _n;
  Raw _raw;
  cv%(t)s::Feet _feet;
  cv%(t)s::detail::Exact _exact;
};""" % dict(t=t))
    L.append("class Derived%(t)s : public Base%(t)s {\nPUBLISHED:\n"
             "  Derived%(t)s(int a, double b) : _b(b) { _v = a; }\n"
             "  double getb() const { return _b; }\n"
             "  Base%(t)s *as_base() { return this; }\n"
             "private:\n  double _b;\n};" % dict(t=t))
    if xinherit > 1:
        if index == 0:
            L.append("class XAnimal%(t)s {\nPUBLISHED:\n  XAnimal%(t)s() {}\n  virtual ~XAnimal%(t)s() {}\n"
                     "  int legs() const { return 4; }\n  virtual int speak() const { return 1; }\n};\n"
                     "class XDog%(t)s : public XAnimal%(t)s {\nPUBLISHED:\n  XDog%(t)s() {}\n"
                     "  int bark() const { return 2; }\n  virtual int speak() const { return 20; }\n};" % dict(t=t))
        elif index == 1:
            L.append("class XPuppy%(t)s : public XDog%(o)s {\nPUBLISHED:\n  XPuppy%(t)s() {}\n"
                     "  int wag() const { return 3; }\n};" % dict(t=t, o=other))
            if xinherit == 3:
                L.append("BEGIN_PUBLISH\ninline int count_legs%(t)s(XAnimal%(o)s *a) { return a ? a->legs() : 0; }\nEND_PUBLISH"
                         % dict(t=t, o=other))
        else:
            L.append("class XPup3%(t)s : public XPuppy%(p)s {\nPUBLISHED:\n  XPup3%(t)s() {}\n"
                     "  int nap() const { return 5; }\n};" % dict(t=t, p=prev))
    L.append("BEGIN_PUBLISH")
    L.append("inline int freefn%(t)s(int a, long long b, unsigned char c, float d, bool e) { return a + (int)b + c + (int)d + e; }\n"
             "inline int use_base%(t)s(Base%(t)s *b) { return b ? b->_v : -1; }" % dict(t=t))
    if other:
        L.append("inline int use_other%(t)s(Base%(o)s *b, const Derived%(o)s &d) { return (b ? b->_v : -1) + d._v; }"
                 % dict(t=t, o=other))
    if "f_keywords" in feats:
        L.append("inline int lambda%(t)s(int self, int args, int kwds) { return self + args + kwds; }" % dict(t=t))
    if "f_operators" in feats:
        L.append("inline bool operator > (const Base%(t)s &a, const Base%(t)s &b) { return a._v > b._v; }" % dict(t=t))
    if "f_stdstring" in feats:
        L.append("inline std::string greet%(t)s(const std::string &who) { return \"hi \" + who; }" % dict(t=t))
    L.append("END_PUBLISH")
    L.append("#endif")
    return "\n".join(L) + "\n"


# ---------------------------------------------------------------------------------------------
# build pipeline of one case
def gxx(args, cwd, timeout=600):
    p = subprocess.run(["g++", "-std=c++17", "-fPIC", "-w"] + args, cwd=cwd, stdout=subprocess.PIPE,
                       stderr=subprocess.STDOUT, text=True, timeout=timeout)
    return p.returncode, p.stdout


def include_args(dirs):
    return ["-I" + SHIMS, "-I" + os.path.join(REPO, "src", "interrogatedb"),
            "-I" + os.path.join(REPO, "src", "dtoolbase"), "-I" + PYINC] + ["-I" + d for d in dirs]


def errors_of(out, n=4):
    e = [re.sub(r"^\S+?:(\d+):\d+: ", r"line \1: ", l) for l in out.splitlines() if " error" in l or "undefined reference" in l
         or "multiple definition" in l]
    return e[:n] or out.splitlines()[-n:]


def runtime_objects(work):
    """The Python runtime that interrogate_module embeds in its output (the build's merged
    interrogate_preamble_python_native.cxx = py_panda.cxx, py_support.cxx, py_compat.cxx, py_wrappers.cxx,
    dtool_super_base.cxx), compiled once against the shims: -do-module python-native output has no
    interrogate_module file, so somebody has to provide Dtool_*."""
    d = os.path.join(work, "runtime")
    os.makedirs(d, exist_ok=True)
    pre = os.path.join(build.bdir(), "cmake", "src", "interrogate", "interrogate_preamble_python_native.cxx")
    if not os.path.exists(pre):
        raise MachineryError("the build has no merged runtime preamble: " + pre)

    def one(a):
        src, o = a
        rc, out = gxx(["-DHAVE_PYTHON", "-O0", "-c", src, "-o", o] + include_args([]), d)
        if rc != 0:
            raise MachineryError("cannot compile %s against the shims:\n%s" % (src, out[-1500:]))
        return o
    objs = run.pmap(one, [(pre, os.path.join(d, "runtime.o")),
                          (os.path.join(SHIMS, "shim_impl.cxx"), os.path.join(d, "shim_impl.o"))], workers=2)
    return [objs[0]], objs[1]


def header_of(c, i):
    t = c["tags"][i]
    if c.get("raw"):
        return HEAD % dict(G="LIB_%s_H" % t) + c["raw"] + "\n#endif\n"
    return render_library(t, c["feats"], other=(c["tags"][0] if i >= 1 else None),
                          collisions=c.get("collisions") if i == 0 else None, overloads=c.get("true_names") != 2,
                          xinherit=c.get("xinherit", 0), index=i, prev=(c["tags"][i - 1] if i >= 1 else None))


def case_options(c):
    o = [BACKENDS[c["backend"]]]
    if NAMING[c["naming"]]:
        o.append(NAMING[c["naming"]])
    o += [FLAGS[k] for k in FLAGS if c.get(k) == 2]
    return o


def build_case(a):
    """interrogate (+ interrogate_module) + g++ + link + nm + import for one case.  Returns a dict with
    `fail`: list of (stage, detail) and the counts used for the evidence."""
    c, work, rt = a
    d = os.path.join(work, c["id"])
    os.makedirs(d)
    res = dict(id=c["id"], fail=[], wrappers=0, traces=[], runs=0, compiles=0)
    be = BACKENDS[c["backend"]]
    opts = case_options(c)
    mod = "vm_" + c["id"]
    tags = c["tags"]
    py = be != "-c"
    # --- the libraries ------------------------------------------------------------------------
    dirs = []
    for i, t in enumerate(tags):
        ld = os.path.join(d, "l" + t)
        os.makedirs(ld)
        dirs.append(ld)
        open(os.path.join(ld, "lib_%s.h" % t), "w").write(header_of(c, i))
    # spec sanity: the generated header is valid C++ (else the generator is wrong, not interrogate)
    rc, out = gxx(["-fsyntax-only", "-x", "c++", os.path.join(dirs[-1], "lib_%s.h" % tags[-1])] + ["-I" + x for x in dirs], d)
    if rc != 0:
        raise MachineryError("generated header of case %s is not valid C++:\n%s" % (c["id"], out[-1500:]))
    inc = include_args(dirs)
    objs, ins = [], []
    for i, t in enumerate(tags):
        ld = dirs[i]
        code, dbf = "lib_%s_igate.cxx" % t, "lib_%s.in" % t
        # with -do-module the library IS the module (python: PyInit_<library>, python-native:
        # PyInit_<module>); interrogate's own binding is built with -module X -library X too
        libname = mod if c.get("do_module") == 2 else c.get("libname", "lib" + t)
        args = ["-DCPPPARSER", "-S" + os.path.join(REPO, "parser-inc")] + ["-I" + x for x in dirs[:i]] + \
               ["-srcdir", ld, "-module", mod, "-library", libname] + opts + ["-oc", code, "-od", dbf, "lib_%s.h" % t]
        tr = os.path.join(ld, "trace.ndjson")
        r = run.run_tool("interrogate", args, cwd=ld, trace=tr, timeout=300)
        res["runs"] += 1
        if r.rc != 0:
            res["fail"].append(("interrogate", "exit %s: %s" % (r.rc, r.stderr[-400:])))
            return res
        if os.path.exists(tr):
            res["traces"].append(tr)
        src = os.path.join(ld, code)
        # 1. well-formed translation unit against the original headers
        rc, out = gxx((["-DHAVE_PYTHON"] if py else []) + ["-fsyntax-only", src] + inc, ld)
        res["compiles"] += 1
        if rc != 0:
            res["fail"].append(("syntax", "lib%s: %s" % (t, " | ".join(errors_of(out)))))
            return res
        # 2. object code
        o = os.path.join(ld, "lib_%s_igate.o" % t)
        rc, out = gxx((["-DHAVE_PYTHON"] if py else []) + ["-O0", "-fkeep-static-functions", "-c", src, "-o", o] + inc, ld)
        res["compiles"] += 1
        if rc != 0:
            res["fail"].append(("compile", "lib%s: %s" % (t, " | ".join(errors_of(out)))))
            return res
        objs.append(o)
        if c.get("nodb") != 2:
            ins.append(os.path.join(ld, dbf))
    # --- module file ----------------------------------------------------------------------------
    need_module = c.get("do_module") != 2 and c.get("nodb") != 2
    if need_module:
        margs = ["-oc", "module.cxx", "-module", mod, "-library", mod, be] + ins
        r = run.run_tool("interrogate_module", margs, cwd=d, timeout=300)
        res["runs"] += 1
        if r.rc != 0:
            res["fail"].append(("interrogate_module", "exit %s: %s" % (r.rc, r.stderr[-400:])))
            return res
        msrc = os.path.join(d, "module.cxx")
        if os.path.getsize(msrc) > 0:
            o = os.path.join(d, "module.o")
            rc, out = gxx((["-DHAVE_PYTHON"] if py else []) + ["-O0", "-c", msrc, "-o", o] + inc, d)
            res["compiles"] += 1
            if rc != 0:
                res["fail"].append(("module-compile", " | ".join(errors_of(out))))
                return res
            objs.append(o)
    # --- link -----------------------------------------------------------------------------------
    so = os.path.join(d, mod + ".so")
    link = ["-shared", "-o", so] + objs
    if py:
        link.append(rt[1])
        if be == "-python-native" and not need_module:
            link += rt[0]              # nobody else provides the Dtool_* runtime
        link += ["-L" + PYLIBDIR, "-l" + PYVER, "-Wl,-rpath," + PYLIBDIR]
    link += ["-L" + build.libdir(), "-linterrogatedb", "-Wl,-rpath," + build.libdir(), "-Wl,-z,defs"]
    rc, out = gxx(link, d)
    if rc != 0:
        res["fail"].append(("link", " | ".join(errors_of(out))))
        return res
    # --- nm: every wrapper named by the database is defined exactly once; unique names distinct ---
    p = subprocess.run(["nm", "--defined-only", "-C"] + objs, stdout=subprocess.PIPE, text=True)
    syms = collections.Counter()
    for line in p.stdout.splitlines():
        f = line.split(None, 2)
        # (static wrappers have C++ linkage: the demangled name is followed by the parameter list;
        # two wrappers with one name and different parameters would compile, and show up here)
        m = re.match(r"(_inC\w*|_inP\w*|Dtool_\w+)(\(|$)", f[2]) if len(f) == 3 and f[1] in "TtDdBbRrWV" \
            and ")::" not in f[2] else None       # (not the function-local statics of a wrapper)
        if m:
            syms[m.group(1)] += 1
    res["symbols"] = len(syms)
    bad = sorted(s for s, n in syms.items() if n > 1 and not s.startswith("Dtool_"))
    if bad:
        res["fail"].append(("nm-duplicate", "defined more than once: %s" % bad[:5]))
    for s in syms:
        if not IDENT.match(s):
            res["fail"].append(("nm-identifier", s))
    if ins:
        db = idb.dump(ins, cwd=d)
        if "crashed" in db:
            res["fail"].append(("database", "cannot load: %s" % db["stderr"][-300:]))
            return res
        names = [w["name"] for w in db["wrappers"].values() if w.get("name")]
        uniq = [w["unique_name"] for w in db["wrappers"].values() if w.get("unique_name")]
        res["wrappers"] = len(db["wrappers"])
        res["uniq"] = len(uniq)
        res["names"] = len(names)
        dup = [n for n, k in collections.Counter(names).items() if k > 1]
        if dup:
            res["fail"].append(("wrapper-names", "wrapper name used twice: %s" % dup[:5]))
        dup = [n for n, k in collections.Counter(uniq).items() if k > 1]
        if dup:
            res["fail"].append(("unique-names", "unique name used twice: %s" % dup[:5]))
        for n in names + uniq:
            if not IDENT.match(n):
                res["fail"].append(("identifier", "not an identifier: %r" % n))
                break
        missing = [n for n in names if syms.get(n, 0) != 1]
        if missing:
            res["fail"].append(("nm-missing", "%d wrapper names of the database are not defined exactly once "
                                "in the code, e.g. %s" % (len(missing), missing[:4])))
    # --- import -----------------------------------------------------------------------------------
    if py and (need_module or c.get("do_module") == 2):
        want = []
        if be == "-python-native" and not c.get("raw"):
            want = ["Base" + t for t in tags] + ["freefn" + t for t in tags]
        # methods inherited across the library boundary must be callable on the most derived class
        calls = []
        if be == "-python-native" and c.get("xinherit", 0) > 1 and len(tags) >= 2:
            calls += [("XPuppy" + tags[1], m_, v) for m_, v in (("legs", 4), ("bark", 2), ("speak", 20), ("wag", 3))]
            if len(tags) == 3:
                calls += [("XPup3" + tags[2], m_, v) for m_, v in (("legs", 4), ("bark", 2), ("wag", 3), ("nap", 5))]
        # python-native re-emits default arguments as code: call every Dflt function with the argument
        # omitted and compare with what the C++ compiler passes (f_native() calls f() in C++)
        dnames = [n for n, _, _ in DEFAULTS + DEFAULTS_STR] + list(c.get("exec_extra", ()))
        script = ("import sys; sys.path.insert(0, %r); import %s as m; names = dir(m)\n"
                  "missing = [n for n in %r if n not in names and n[0].lower() + n[1:] not in names]\n"
                  "bad = []; n_exec = 0\n"
                  "for cn, mn, v in %r:\n"
                  "    got = getattr(getattr(m, cn)(), mn)()\n"
                  "    if got != v: bad.append((cn + '.' + mn, got, v))\n"
                  "for t in %r:\n"
                  "    cls = getattr(m, 'Dflt' + t, None)\n"
                  "    if cls is None: continue\n"
                  "    o = cls()\n"
                  "    for n in %r:\n"
                  "        f = getattr(o, n, None); g = getattr(o, n + '_native', None)\n"
                  "        if f is None or g is None: continue\n"
                  "        n_exec += 1\n"
                  "        got, want = f(), g()\n"
                  "        if got != want: bad.append((n, got, want))\n"
                  "print('MISSING', missing) if missing else (print('DEFAULT-MISMATCH', bad) if bad else print('OK', len(names), n_exec))"
                  % (d, mod, want, calls, tags, dnames))
        p = subprocess.run([sys.executable, "-c", script], stdout=subprocess.PIPE, stderr=subprocess.STDOUT, text=True,
                           timeout=120, cwd=d)
        if p.stdout.startswith("DEFAULT-MISMATCH"):
            res["fail"].append(("default-value", "a default argument re-emitted by the wrapper has another value than in "
                                "C++ (function, python-native, C++): " + p.stdout[17:500]))
            res["imported"] = True
        elif p.returncode != 0 or not p.stdout.startswith("OK"):
            res["fail"].append(("import", p.stdout[-500:]))
        else:
            res["imported"] = True
            res["defaults_executed"] = int(p.stdout.split()[2])
    return res


# ---------------------------------------------------------------------------------------------
# known-finding classes: predicates over the INPUT (options + features) only
def classes_of(c):
    """Finding classes a case falls in.  The hand-written constructs below are run as separate cases (they are
    not part of the lattice: each is known to fail on its own); the class is the construct, an INPUT."""
    out = []
    if c.get("construct"):
        out.append(c["construct"])
    return out


MP = ("#ifdef CPPPARSER\n#define MAKE_PROPERTY(n, ...) __make_property(n, __VA_ARGS__)\n#else\n"
      "#define MAKE_PROPERTY(n, ...)\n#endif\n")
SIMPLE = "class Plain { public: Plain() {} int f() const { return 1; } };\n"
KNOWN_CONSTRUCTS = [
    # finding id, tag, back-ends where it shows, options, header that satisfies the predicate, CONTROL: the
    # nearest header / options that do not (must pass: the measured exactness of the predicate)
    dict(id="C03-template-nested-class", tag="tnest", backends=(1, 2, 3), opts={"promiscuous": 2},
         body="template<class T> class Tmpl { public: Tmpl() {} class Inner { public: Inner() {} T v; };\n"
              "  Inner get() const { return Inner(); } int take(const Inner &i) const { return 1; } };\n"
              "typedef Tmpl<int> TmplInt;\n",
         control="class Tmpl { public: Tmpl() {} class Inner { public: Inner() {} int v; };\n"
                 "  Inner get() const { return Inner(); } int take(const Inner &i) const { return 1; } };\n"),
    dict(id="C03-anonymous-struct-member", tag="anon", backends=(1, 2), opts={"promiscuous": 2},
         body="class Anon { public: Anon() {} struct { int x; int y; } pos; int n; };\n",
         control="class Anon { public: Anon() {} struct Pos { int x; int y; }; Pos pos; int n; };\n"),
    dict(id="C03-python-array-parameter", tag="arr", backends=(2,), opts={"promiscuous": 2},
         body="class Arr { public: Arr() {} int sum(int a[3]) { return a[0]; } };\ninline int gsum(int v[4]) { return v[0]; }\n",
         control="class Arr { public: Arr() {} int sum(int *a) { return a[0]; } };\ninline int gsum(int *v) { return v[0]; }\n"),
    # distinct C++ names that make_safe_name / the slot name scheme map to ONE identifier
    dict(id="C03-safe-name-collision", tag="sign", backends=(3,), opts={"promiscuous": 2},
         body="template<int N> class Tn { public: Tn() {} int get() const { return N; } };\ntypedef Tn<-1> TnNeg;\ntypedef Tn<1> TnPos;\n",
         control="template<int N> class Tn { public: Tn() {} int get() const { return N; } };\ntypedef Tn<2> TnTwo;\ntypedef Tn<1> TnPos;\n"),
    dict(id="C03-safe-name-collision", tag="scope", backends=(3,), opts={"promiscuous": 2},
         body="class A_b { public: A_b() {} int f() const { return 1; } };\n"
              "class A { public: A() {} class b { public: b() {} int g() const { return 2; } }; };\n",
         control="class A_c { public: A_c() {} int f() const { return 1; } };\n"
                 "class A { public: A() {} class b { public: b() {} int g() const { return 2; } }; };\n"),
    dict(id="C03-safe-name-collision", tag="prop", backends=(3,), opts={"promiscuous": 2},
         body=MP + "class P_b { public: P_b() {} int get_x() const { return 1; } MAKE_PROPERTY(x, get_x); };\n"
              "class P { public: P() {} int get_b_x() const { return 2; } MAKE_PROPERTY(b_x, get_b_x); };\n",
         control=MP + "class P_b { public: P_b() {} int get_x() const { return 1; } MAKE_PROPERTY(x, get_x); };\n"
                 "class P { public: P() {} int get_c_x() const { return 2; } MAKE_PROPERTY(c_x, get_c_x); };\n"),
    dict(id="C03-nonpublic-type-in-signature", tag="prot", backends=(1, 2, 3), opts={"promiscuous": 2},
         body="class Prot { protected: typedef int Handle; public: Prot() {} int take(Handle h) { return h; } };\n",
         control="class Prot { public: typedef int Handle; Prot() {} int take(Handle h) { return h; } };\n"),
    dict(id="C03-library-name-not-identifier", tag="lname", backends=(3,), opts={"promiscuous": 2, "libname": "lib-foo.bar"},
         body=SIMPLE, control=SIMPLE, control_opts={"promiscuous": 2, "libname": "lib_foo_bar"}),
    # array data members whose elements can be assigned to: the -python back-end reads the new value as a PyObject and casts
    # it to the array type (`(int [2])param1`); -c and -python-native are the control (same header, they compile)
    dict(id="C03-python-array-member-setter", tag="arrset", backends=(2,), opts={"promiscuous": 2},
         body="struct ArrM { ArrM() { a[0] = a[1] = 0; g[0][0] = 0; } int a[2]; int g[2][2]; };\n",
         control="struct ArrM { ArrM() : p(nullptr) { } const int *p; const int a[2] = {1, 2}; };\n"),
    dict(id="C03-default-names-private-member", tag="late", backends=(3,), opts={"promiscuous": 2},
         body="class Late { public: Late() {} int f(int v = kSecret) { return v; } private: static const int kSecret = 5; };\n",
         control="class Late { public: static const int kOpen = 5; Late() {} int f(int v = kOpen) { return v; } };\n"),
]


def describe(c):
    return "interrogate %s on a library with {%s}%s" % (
        " ".join(case_options(c)), ", ".join(sorted(f[2:] for f in c["feats"])),
        (" (%d libraries%s)" % (len(c["tags"]), {2: ", chain across them, grand-parent not named otherwise",
                                                  3: ", chain across them"}.get(c.get("xinherit"), "")))
        if len(c["tags"]) >= 2 else "")


def rows_to_cases(rows):
    cases, seen = [], set()
    for r in rows:
        d = dict(zip(r["names"], r["row"]))
        key = tuple(r["row"])
        if key in seen:
            continue
        seen.add(key)
        i = len(cases)
        c = dict(id="r%03d" % i, backend=d["backend"], naming=d["naming"],
                 tags=["A%d" % i, "B%d" % i, "C%d" % i][:d["libraries"]],
                 feats={f for f in FEATURES if d[f] == 2}, xinherit=d["f_xinherit"], row=r["row"])
        for k in FLAGS:
            c[k] = d[k]
        cases.append(c)
    return cases


def validate_hash_traces(ctx, results):
    """Port agreement on every logged hash + HashNamesTrace on every execution."""
    traces = [t for r in results for t in r["traces"]]
    n_ev = 0
    groups = [traces[i::8] for i in range(8)]
    groups = [g for g in groups if g]

    def one(gi_g):
        gi, g = gi_g
        cat = os.path.join(ctx.tmp, "hash-%d.ndjson" % gi)
        n = 0
        with open(cat, "w") as o:
            for t in g:
                o.write('{"e":"Reset"}\n')
                for line in open(t):
                    if line.startswith('{"e":"Hash'):
                        ev = json.loads(line)
                        if ev["e"] == "Hash" and (hash_string(ev["sig"], 5) != ev["h5"] or
                                                  hash_string(ev["sig"], 11) != ev["h11"]):
                            raise MachineryError("the Python port of hash_string disagrees with the hook: %r" % ev)
                        o.write(line)
                        n += 1
        if n == 0:
            return cat, 0, "accepted", None
        st, r = tlc.validate_trace("HashNamesTrace", cat)
        if st != "accepted":
            st, r = tlc.validate_trace("HashNamesTrace", cat)
        return cat, n, st, r
    for cat, n, st, r in run.pmap(one, list(enumerate(groups)), workers=8):
        n_ev += n
        if r is not None:
            ctx.cov["states"] += r.generated
            ctx.cov["transitions"] += r.generated
        if st != "accepted":
            lines = open(cat).read().split("\n")
            at = r.stuck_at or 1
            ctx.violation("H-hash trace %s by HashNamesTrace (%s) at event %d: %s" % (
                st, r.violated or "the logged assignment is not the Insert step of the spec", at,
                " ".join(lines[max(0, at - 2):at + 1])[:600]),
                dict(events=lines[max(0, at - 6):at + 2], tlc_tail=r.out[-2000:]))
    return n_ev


def run_check(ctx):
    build.ensure("hooked")
    tier = ctx.tier
    # ---- TLC ------------------------------------------------------------------------------------
    r = tlc.run("HashNamesMC", "HashNames_limit", workers=2, timeout=600)
    ctx.add_tlc(r)
    if r.verdict != "invariant" or r.violated != "NoFailure":
        raise MachineryError("HashNames_limit must reach the 'too many conflicts' path: %s\n%s" % (r.verdict, r.out[-1500:]))
    dump = os.path.join(ctx.tmp, "hashnames.ndjson")
    r = tlc.run("HashNamesMC", "HashNames_" + tier, workers=8, env={"VERIF_DUMP": dump},
                timeout=600 if tier == "quick" else 3000)
    ctx.add_tlc(r)
    if r.verdict == "invariant":
        raise MachineryError("HashNames: %s violated in the model\n%s" % (r.violated, r.out[-2500:]))
    tlc.must_ok(r)
    patterns = tlc.read_dump(dump)
    ctx.notes["hashnames_collision_patterns"] = len(patterns)
    dump = os.path.join(ctx.tmp, "lattice.ndjson")
    r = tlc.run("OptLatticeMC", "OptLattice_" + tier, workers=1 if tier == "quick" else 4, env={"VERIF_DUMP": dump}, timeout=1500)
    ctx.add_tlc(r)
    tlc.must_ok(r)
    rows = tlc.read_dump(dump)
    variants = sorted({x["variant"] for x in rows})
    if not rows or any(min(x["left"] for x in rows if x["variant"] == v) != 0 for v in variants):
        raise MachineryError("OptLattice did not reach a complete covering array for every variant")
    # re-check the covering property on the rows that are replayed: every pair of values of two factors
    # occurs in some row, unless no valid row contains it
    nf = len(rows[0]["row"])
    dom = [sorted({x["row"][f] for x in rows}) for f in range(nf)]
    have = {(f, x["row"][f], g, x["row"][g]) for x in rows for f in range(nf) for g in range(f + 1, nf)}
    missing = [(rows[0]["names"][f], a, rows[0]["names"][g], b) for f in range(nf) for g in range(f + 1, nf)
               for a in dom[f] for b in dom[g] if (f, a, g, b) not in have]
    # pairs that occur in no valid row (the exclusions of OptLattice.tla and what follows from them)
    allowed = {("naming", 1, "true_names", 2), ("do_module", 2, "libraries", 2), ("do_module", 2, "libraries", 3),
               ("libraries", 1, "f_xinherit", 2), ("libraries", 1, "f_xinherit", 3),
               ("do_module", 2, "f_xinherit", 2), ("do_module", 2, "f_xinherit", 3)}
    if set(missing) - allowed:
        raise MachineryError("covering array incomplete: %r" % sorted(set(missing) - allowed)[:5])
    cases = rows_to_cases(rows)
    # the covering property is re-checked here on what is actually replayed
    total = rows[0]["total"]
    ctx.notes["lattice_rows"] = len(cases)
    ctx.notes["lattice_tuples_covered"] = total
    ctx.notes["lattice_variants"] = len(variants)

    # ---- collision libraries ------------------------------------------------------------------------
    col = find_collisions("BaseH", tier)
    n_groups = len(col["pairs"]) + len(col["triples"]) + len(col["both"])
    if len(col["pairs"]) < 2 or not col["triples"]:
        raise MachineryError("collision search found too few colliding names: %r" % col)
    ccases = []
    for be in (1, 2, 3):
        c = dict(id="h%d" % be, backend=be, naming=1, tags=["H"], feats=set(), unique_names=2,
                 collisions=col, collision_case=True)
        ccases.append(c)
    ccases.append(dict(id="h4", backend=1, naming=2, tags=["H"], feats={"f_keywords"}, nodb=1, string=2,
                       collisions=col, collision_case=True))
    # constructs with a known finding (each fails on its own; kept running so that the finding stays true)
    kcases = []
    for kc in KNOWN_CONSTRUCTS:
        for be in kc["backends"]:
            kcases.append(dict(dict(id="k%d%s" % (be, kc["tag"]), backend=be, naming=1, tags=["K"], feats=set(),
                                    raw=kc["body"], construct=kc["id"]), **kc["opts"]))
            kcases.append(dict(dict(id="k%d%sctl" % (be, kc["tag"]), backend=be, naming=1, tags=["K"], feats=set(),
                                    raw=kc["control"], control_of=kc["id"]), **kc.get("control_opts", kc["opts"])))
    # the same assignable array members under -c and -python-native: plain cases that must pass
    for be in (1, 3):
        kcases.append(dict(id="k%darrok" % be, backend=be, naming=1, tags=["K"], feats=set(), promiscuous=2,
                           raw="struct ArrM { ArrM() { a[0] = a[1] = 0; g[0][0] = 0; } int a[2]; int g[2][2]; };\n",
                           control_of="C03-python-array-member-setter"))
    # an integer literal above LLONG_MAX as default argument (executed); control: LLONG_MAX itself
    kcases.append(dict(id="k3ullmax", backend=3, naming=1, tags=["K"], feats=set(), string=2, promiscuous=2,
                       raw=render_defaults("K", False, extra=[("u1", "unsigned long long v = 18446744073709551615ULL", "v")]),
                       exec_extra=["u1"], construct="C03-default-literal-above-llong-max"))
    kcases.append(dict(id="k3ullmaxctl", backend=3, naming=1, tags=["K"], feats=set(), string=2, promiscuous=2,
                       raw=render_defaults("K", False, extra=[("u1", "unsigned long long v = 9223372036854775807ULL", "v")]),
                       exec_extra=["u1"], control_of="C03-default-literal-above-llong-max"))
    work = ctx.tmp
    rt = runtime_objects(work)
    results = run.pmap(build_case, [(c, work, rt) for c in cases + ccases + kcases], workers=min(NCPU, 12))
    by_id = {c["id"]: c for c in cases + ccases + kcases}
    n_ok = 0
    for res in results:
        c = by_id[res["id"]]
        ctx.cov["evaluations"] += 1
        if not res["fail"]:
            n_ok += 1
        for stage, detail in res["fail"]:
            hdr = {t: header_of(c, i) for i, t in enumerate(c["tags"])}
            ctx.violation("%s: %s failed: %s" % (describe(c), stage, detail[:500]),
                          dict(options=case_options(c), features=sorted(c["feats"]), libraries=len(c["tags"]),
                               stage=stage, detail=detail, headers=hdr, stat_key=stage + ":" + detail[:60]),
                          classes=classes_of(c))
    # collision libraries: the collisions must really have happened in the hashed back-ends
    n_ext = 0
    for res in results:
        if by_id[res["id"]].get("collision_case") and by_id[res["id"]]["backend"] in (1, 2):
            evs = [json.loads(l) for t in res["traces"] for l in open(t) if l.startswith('{"e":"Hash')]
            ext = [e for e in evs if e["e"] == "HashExtend"]
            if not evs:
                raise MachineryError("the H-hash hook recorded nothing for %s (c03-hooks.diff not applied?)" % res["id"])
            # the collisions are a property of the INPUT names (checked with the port, not with the names
            # the tool assigned): at least one h5 value per group is shared by several signatures
            by5 = collections.Counter(hash_string(e["sig"], 5) for e in evs if e["e"] == "Hash")
            if sum(1 for k, n in by5.items() if n > 1) < n_groups:
                raise MachineryError("collision library %s: the generated names do not collide" % res["id"])
            n_ext += len(ext)
    n_ev = validate_hash_traces(ctx, results)
    if n_ev == 0:
        raise MachineryError("no Hash event recorded in any run")
    ctx.notes["hash_events_validated"] = n_ev
    ctx.notes["real_hash_collisions_resolved"] = n_ext
    ctx.notes["collision_names"] = col
    ctx.notes["cases_built"] = len(results)
    ctx.notes["cases_clean"] = n_ok
    ctx.notes["tool_runs"] = sum(r["runs"] for r in results)
    ctx.notes["compiles"] = sum(r["compiles"] for r in results)
    ctx.notes["modules_imported"] = sum(1 for r in results if r.get("imported"))
    ctx.notes["default_arguments_executed"] = sum(r.get("defaults_executed", 0) for r in results)
    ctx.notes["known_construct_cases"] = len(kcases)
    # measured exactness of the finding predicates: in-class cases that fail / controls that pass
    ex = {}
    for res in results:
        c = by_id[res["id"]]
        fid = c.get("construct") or c.get("control_of")
        if fid:
            e = ex.setdefault(fid, dict(in_class=0, in_class_failing=0, controls=0, controls_passing=0))
            if c.get("construct"):
                e["in_class"] += 1
                e["in_class_failing"] += bool(res["fail"])
            else:
                e["controls"] += 1
                e["controls_passing"] += not res["fail"]
    ctx.notes["finding_predicate_exactness"] = ex
    ctx.notes["wrappers_checked"] = sum(r.get("wrappers", 0) for r in results)
    ctx.notes["wrapper_names_checked"] = sum(r.get("names", 0) for r in results)
    ctx.notes["unique_names_checked"] = sum(r.get("uniq", 0) for r in results)
    ctx.cov["exhaustive"] = True
    ctx.cov["rule"] = ("HashNames: every insertion order of the signatures under every pair of two-valued hash "
                       "functions; OptLattice: TLC builds a covering array of strength 2 over options x construct "
                       "features; every row is generated, run through interrogate (+ interrogate_module), compiled, "
                       "linked, checked with nm / the database and imported; non-trivial = the case reached the "
                       "compiler with at least one wrapper; distinct = distinct (options, features) row or "
                       "collision library")
    ctx.cov["distinct_nontrivial"] = sum(1 for r in results if r["compiles"] > 0 and (r.get("wrappers") or r.get("symbols")))
    ctx.cov["traces_validated_against_impl"] += len(results) + n_ev
    for c in (cases[:3] + ccases[:1]):
        ctx.sample(dict(options=case_options(c), features=sorted(c["feats"]), libraries=len(c["tags"])))
    ctx.sample(dict(collision_groups=col["pairs"][:1] + col["triples"][:1] + col["both"][:1]))
