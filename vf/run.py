"""Run the tools under test; every invocation is recorded by the run monitor (C15 / ToolRun)."""
import json, os, signal, subprocess, time, threading
from concurrent.futures import ThreadPoolExecutor
from .common import BUILD, NCPU
from . import build

_lock = threading.Lock()
MONITOR = []     # in-process list of monitor records (also appended to .build/monitor.ndjson)


class R:
    pass


def run_tool(name, args, cwd=None, trace=None, timeout=120, env=None, kind="hooked",
             outputs=(), stdin=None, monitor=True, binary=False):
    """name in {parse_file, interrogate, interrogate_module} or an absolute path."""
    exe = name if os.path.isabs(name) else build.tool(name, kind)
    e = dict(os.environ)
    e["LD_LIBRARY_PATH"] = build.libdir(kind) + ":" + e.get("LD_LIBRARY_PATH", "")
    e.pop("INTERROGATE_VERIF_TRACE", None)
    if trace:
        e["INTERROGATE_VERIF_TRACE"] = trace
    if env:
        e.update(env)
    t0 = time.time()
    r = R()
    r.timed_out = False
    try:
        p = subprocess.run([exe] + list(args), cwd=cwd, env=e, stdout=subprocess.PIPE,
                           stderr=subprocess.PIPE, timeout=timeout, input=stdin)
        r.rc = p.returncode
        out, err = p.stdout, p.stderr
    except subprocess.TimeoutExpired as ex:
        r.rc, r.timed_out = None, True
        out, err = ex.stdout or b"", ex.stderr or b""
    r.wall = time.time() - t0
    r.signal = -r.rc if (r.rc is not None and r.rc < 0) else 0
    if binary:
        r.stdout, r.stderr = out, err
    else:
        r.stdout = out.decode("utf-8", "replace")
        r.stderr = err.decode("utf-8", "replace")
    r.args = list(args)
    r.outputs = {o: os.path.exists(os.path.join(cwd or ".", o)) for o in outputs}
    if monitor and not os.path.isabs(name):
        errtxt = r.stderr if not binary else err.decode("utf-8", "replace")
        rec = dict(tool=name, rc=r.rc, signal=r.signal, timed_out=r.timed_out, wall=round(r.wall, 3),
                   n_error=errtxt.count(" error: ") + errtxt.count("Error in p"),
                   outputs=r.outputs, argv=" ".join(args)[:200], cwd=cwd)
        with _lock:
            MONITOR.append(rec)
    return r


def pmap(fn, items, workers=None):
    with ThreadPoolExecutor(max_workers=workers or NCPU) as ex:
        return list(ex.map(fn, items))


def isolate(items, ok_fn, max_singletons=400):
    """Batch isolation: ok_fn(list) -> True when the tool handles the whole list.  Returns
    (good_groups, bad_items): groups that passed together and single items that fail alone.
    Bisects failing groups; stops splitting after max_singletons bad items were found."""
    good, bad = [], []
    stack = [list(items)]
    while stack:
        g = stack.pop()
        if not g:
            continue
        if ok_fn(g):
            good.append(g)
        elif len(g) == 1 or len(bad) >= max_singletons:
            bad.extend(g)
        else:
            m = len(g) // 2
            stack.append(g[m:])
            stack.append(g[:m])
    return good, bad
