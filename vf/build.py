"""Build /repo's current working tree into /verif/.build/<kind> (incremental, under flock)."""
import fcntl, os, subprocess, sys, time
from .common import REPO, BUILD, NCPU, MachineryError

GUARD = "INTERROGATE_VERIF_TRACE"

KINDS = {
    # same configuration as the baseline build, hooks compiled in (inert unless $INTERROGATE_VERIF_TRACE is set)
    "hooked": dict(flags="-Wno-error -D%s" % GUARD, type="RelWithDebInfo", cc=None),
    "off": dict(flags="-Wno-error", type="RelWithDebInfo", cc=None),
    "asan": dict(flags="-Wno-error -D%s -fsanitize=address,undefined -fno-omit-frame-pointer -fno-sanitize-recover=undefined" % GUARD,
                 type="RelWithDebInfo", cc=None),
}


def bdir(kind="hooked"):
    return os.path.join(BUILD, kind)


def ensure(kind="hooked", quiet=True):
    k = KINDS[kind]
    d = bdir(kind)
    os.makedirs(BUILD, exist_ok=True)
    with open(os.path.join(BUILD, ".lock-" + kind), "w") as lk:
        fcntl.flock(lk, fcntl.LOCK_EX)
        stamp = os.path.join(d, ".verif-src")
        # the build dir is bound to the source dir it was configured for
        if os.path.exists(stamp) and open(stamp).read().strip() != REPO:
            subprocess.run(["rm", "-rf", d])
        if not os.path.exists(os.path.join(d, "build.ninja")):
            cmd = ["cmake", "-G", "Ninja", "-S", REPO, "-B", d,
                   "-DCMAKE_BUILD_TYPE=" + k["type"], "-DCMAKE_CXX_FLAGS=" + k["flags"],
                   "-DCMAKE_C_FLAGS=" + k["flags"], "-DCMAKE_POLICY_VERSION_MINIMUM=3.5",
                   "-DBUILD_SHARED_LIBS=ON"]
            if kind == "asan":
                cmd += ["-DCMAKE_EXE_LINKER_FLAGS=-fsanitize=address,undefined",
                        "-DCMAKE_SHARED_LINKER_FLAGS=-fsanitize=address,undefined"]
            r = subprocess.run(cmd, stdout=subprocess.PIPE, stderr=subprocess.STDOUT, text=True)
            if r.returncode != 0:
                raise MachineryError("cmake configure failed:\n" + r.stdout[-3000:])
            open(stamp, "w").write(REPO)
        r = subprocess.run(["cmake", "--build", d, "-j", str(NCPU)],
                           stdout=subprocess.PIPE, stderr=subprocess.STDOUT, text=True)
        if r.returncode != 0:
            raise MachineryError("build of %s failed:\n%s" % (REPO, r.stdout[-4000:]))
    return d


def tool(name, kind="hooked"):
    return os.path.join(bdir(kind), "bin", name)


def libdir(kind="hooked"):
    return os.path.join(bdir(kind), "lib")


if __name__ == "__main__":
    t = time.time()
    print(ensure(sys.argv[1] if len(sys.argv) > 1 else "hooked"), "%.1fs" % (time.time() - t))
