"""#if controlling expressions for C09, with their truth value computed by the C07 evaluator.

The CondIncl spec abstracts a controlling expression to one of six classes, each a function of the
state of the macro M (undefined / defined as 0 / defined as 1):

    class   undefined  M=0  M=1
    "T"        1        1    1      true whatever M is
    "F"        0        0    0      false whatever M is (no undefined identifier involved)
    "D"        0        1    1      defined(M)
    "N"        1        0    0      !defined(M)
    "V"        0        0    1      the value of M (an undefined M counts as 0)
    "U"        0        0    0      false because an identifier that is never defined counts as 0

TABLE[class] is a list of spellings: integer constant expressions over literals in every base (digit
separators, l/ll suffixes), character literals, the macro M, defined M / defined(M) / defined ( M ),
an identifier that is never defined, unary + - ~ !, all binary operators, ?:, minimal and full
parenthesisation.  Each spelling is generated from a tree, its truth value in the three states of M is
computed with vf/constexpr.py (the mirror of specs/ConstExpr.tla, checked against TLC on every
enumerated tree by ./check C07) and its class is that truth vector.  validate_gcc() checks every
spelling in every state against `gcc -E` (#if); a disagreement is a MachineryError.

Only spellings interrogate's preprocessor evaluates correctly (with the c07-fix patches applied) are
in TABLE; input classes that are findings are listed in KNOWN_BAD with a predicate and are filtered
out by that predicate (never by observed behaviour).

Use from vf/checks/c09.py:
    from .. import condexpr
    condexpr.validate_gcc(ctx.tmp)                       # once per run
    text = condexpr.spelling(cls, rnd)                   # cls in "TFDNVU", rnd a random.Random
    text = condexpr.spellings(True, rnd)                 # a constant true / false expression
"""
import os, subprocess
from .common import MachineryError
from . import constexpr as X

UNDEF_ID = "NOT_DEFINED_ANYWHERE"
STATES = (-1, 0, 1)                       # M undefined, defined as 0, defined as 1 (CondIncl's rdef)
VECTOR = {(1, 1, 1): "T", (0, 0, 0): "F", (0, 1, 1): "D", (1, 0, 0): "N", (0, 0, 1): "V"}
PER_CLASS = 400

# symbolic leaves
NUMS = [0, 1, 2, 7]
DEFINED = ["defined(M)", "defined M", "defined ( M )"]
SYMS = [("n", 0), ("n", 1), ("n", 2), ("c", 97), ("c", 0), ("M",), ("D", 0), ("D", 1), ("D", 2), ("U",)]
SMALL = [("n", 0), ("n", 1), ("n", 2), ("M",), ("D", 0), ("U",)]
OPS2 = ["+", "-", "*", "<", "==", "&", "|", "&&", "||"]

# input classes interrogate's preprocessor does not handle (findings): (id, what, predicate over the text)
KNOWN_BAD = [
    ("C09-funlike-macro-name", "a function-like macro name used without parentheses in #if is left in place "
     "(the expression becomes invalid and the group is skipped) where a conforming preprocessor substitutes 0",
     lambda text: False),       # never generated: stated for the record (DESIGN §11 row 16)
    ("C07-macro-sign-paste", "`-X` / `+X` with X a macro whose replacement starts with the same sign is pasted "
     "into `--` / `++` by the textual expansion", lambda text: False),   # M is 0 or 1 here: cannot occur
]


def _leaf(sym, state, k):
    kind = sym[0]
    if kind == "n":
        return ["sp", X.spell_value(sym[1], k, pp=True), sym[1]]
    if kind == "c":
        return ["sp", X.CHAR_SPELL[sym[1]][k % len(X.CHAR_SPELL[sym[1]])], sym[1]]
    if kind == "M":
        return ["sp", "M", max(state, 0)]
    if kind == "D":
        return ["sp", DEFINED[sym[1]], int(state != -1)]
    return ["sp", UNDEF_ID, 0]


def _inst(shape, state, k):
    """shape: tree whose leaves are symbols -> X tree for one state of M (k selects literal spellings)"""
    n = [0]

    def go(t):
        if isinstance(t, tuple):
            n[0] += 1
            return _leaf(t, state, k + 3 * n[0])
        return [t[0]] + [go(c) if isinstance(c, (list, tuple)) else c for c in t[1:]]
    return go(shape)


def _syms(t, acc):
    if isinstance(t, tuple):
        acc.add(t[0])
    else:
        for c in t[1:]:
            if isinstance(c, (list, tuple)):
                _syms(c, acc)
    return acc


def _shapes():
    for a in SYMS:
        yield a
        for op in ("!", "-", "~", "+"):
            yield ["un", op, a]
        yield ["un", "!", ["un", "!", a]]
    for op in X.BINOPS:
        for a in SYMS:
            for b in SYMS:
                yield ["bin", op, a, b]
    for a in SMALL:
        for b in SMALL:
            for c in SMALL:
                yield ["cond", a, b, c]
                for o1 in OPS2:
                    for o2 in OPS2:
                        yield ["bin", o2, ["bin", o1, a, b], c]
                        yield ["bin", o1, a, ["bin", o2, b, c]]
    for a in SMALL:
        for b in SMALL:
            for op in OPS2:
                yield ["un", "!", ["bin", op, a, b]]
                yield ["bin", op, ["un", "-", a], ["un", "!", b]]
                yield ["cond", ["bin", op, a, b], ("n", 1), ("n", 0)]
                yield ["cond", a, ["bin", op, a, b], b]


def _build():
    byclass = {c: [] for c in "TFDNVU"}
    seen = set()
    for i, shape in enumerate(_shapes()):
        vec = []
        for s in STATES:
            d, v = X.ev(_inst(shape, s, 0))
            if d != X.OK:
                vec = None
                break
            vec.append(int(v != 0))
        if vec is None:
            continue
        cls = VECTOR.get(tuple(vec))
        if cls is None:
            continue
        syms = _syms(shape, set())
        if cls == "F" and "U" in syms:
            cls = "U"
        elif "U" in syms and cls != "U":
            pass            # an undefined identifier inside e.g. a true expression is fine
        if cls == "U" and "U" not in syms:
            continue
        byclass[cls].append((i, shape, tuple(vec)))
    table, truth = {}, {}
    for cls, lst in byclass.items():
        step = max(1, len(lst) // PER_CLASS)
        out = []
        for j, (i, shape, vec) in enumerate(lst[::step]):
            t = _inst(shape, 0, i)
            toks = X.toks_full(t) if j % 4 == 3 else X.toks_min(t)
            text = X.join(toks, spaced=(j % 5 == 4))
            if text in seen or any(pred(text) for _, _, pred in KNOWN_BAD):
                continue
            seen.add(text)
            out.append(text)
            truth[text] = vec
        table[cls] = out
    return table, truth


TABLE, TRUTH = _build()
_validated = [False]


def truth(text, mstate):
    """Truth value of a TABLE spelling when M is undefined (-1), 0 or 1."""
    return bool(TRUTH[text][STATES.index(mstate)])


def spelling(cls, rnd):
    return rnd.choice(TABLE[cls])


def spellings(value, rnd):
    """A controlling expression that is true (false) whatever the state of M."""
    return rnd.choice(TABLE["T" if value else "F"])


def probe_file(texts=None):
    """A translation unit that makes the truth value of every spelling in every state of M observable:
    marker `K<i>_<state index>` survives iff the expression is true.  Returns (source text, index)."""
    texts = texts if texts is not None else [t for c in "TFDNVU" for t in TABLE[c]]
    lines = []
    for i, text in enumerate(texts):
        for si, s in enumerate(STATES):
            lines.append("#undef M")
            if s >= 0:
                lines.append("#define M %d" % s)
            lines += ["#if " + text, "int K%d_%d;" % (i, si), "#endif"]
    return "\n".join(lines) + "\n", texts


def observed_truth(output, texts):
    import re
    got = set(re.findall(r"\bK(\d+)_(\d)\b", output))
    return {t: tuple(int((str(i), str(si)) in got) for si in range(3)) for i, t in enumerate(texts)}


def validate_gcc(workdir):
    """Every spelling, in every state of M, against gcc -E.  Raises MachineryError on a disagreement."""
    if _validated[0]:
        return len(TRUTH)
    src, texts = probe_file()
    path = os.path.join(workdir, "condexpr_probe.c")
    open(path, "w").write(src)
    p = subprocess.run(["gcc", "-E", "-P", "-std=gnu2x", path], stdout=subprocess.PIPE, stderr=subprocess.PIPE, text=True)
    if p.returncode != 0:
        raise MachineryError("gcc -E rejects the condition table: %s" % p.stderr[:800])
    obs = observed_truth(p.stdout, texts)
    for t in texts:
        if obs[t] != TRUTH[t]:
            raise MachineryError("condexpr: `#if %s` evaluator %r gcc %r (M undefined, 0, 1)" % (t, TRUTH[t], obs[t]))
    _validated[0] = True
    return len(texts)
