"""Shared plumbing: paths, verdict bookkeeping, known findings, evidence."""
import json, os, sys, time, hashlib, shutil, tempfile

VERIF = os.path.dirname(os.path.dirname(os.path.abspath(__file__)))
REPO = os.environ.get("VERIF_REPO", "/repo")
BUILD = os.environ.get("VERIF_BUILD", os.path.join(VERIF, ".build"))
SPECS = os.path.join(VERIF, "specs")
HARNESS = os.path.join(VERIF, "harness")
SHIMS = os.path.join(VERIF, "shims")
NCPU = min(16, os.cpu_count() or 4)
# mutant self-tests redirect what a run writes so that committed evidence is never touched
OUT = os.environ.get("VERIF_OUT", VERIF)

EXIT_OK, EXIT_VIOLATION, EXIT_MACHINERY = 0, 1, 2


class MachineryError(Exception):
    """The check could not run (build failure, TLC error, spec≠compiler, vacuity)."""


def seed():
    try:
        return int(os.environ.get("VERIF_SEED", "1"))
    except ValueError:
        return 1


def scratch(prefix):
    """A scratch directory under .build/tmp (never /tmp for registered commands)."""
    base = os.path.join(BUILD, "tmp")
    os.makedirs(base, exist_ok=True)
    return tempfile.mkdtemp(prefix=prefix + "-", dir=base)


def load_known():
    p = os.path.join(VERIF, "known_findings.json")
    if not os.path.exists(p):
        return []
    return json.load(open(p))["findings"]


class Ctx:
    """One check run.  Collects violations / findings / coverage and writes evidence."""

    def __init__(self, pid, tier):
        self.pid, self.tier, self.seed = pid, tier, seed()
        self.t0 = time.time()
        self.violations = []        # (desc, replay path)
        self.known_hit = {}         # finding id -> example
        self.cov = dict(states=0, transitions=0, traces_validated_against_impl=0,
                        evaluations=0, distinct_nontrivial=0, samples=[], rule="",
                        checker_cmd="", exhaustive=False)
        self.assumptions = []
        self.notes = {}
        self.known = {f["id"]: f for f in load_known()
                      if f.get("property") == pid and f.get("status", "finding") == "finding"}
        self.replay_dir = os.path.join(OUT, "replays", pid)
        self._nrep = 0
        self.tmp = scratch(pid)

    # -- bookkeeping -------------------------------------------------
    def add_tlc(self, res):
        self.cov["states"] += res.generated
        self.cov["transitions"] += res.generated  # TLC reports generated states = transitions taken
        self.cov.setdefault("distinct_states", 0)
        self.cov["distinct_states"] += res.distinct
        self.cov.setdefault("tlc_runs", []).append(
            dict(spec=res.spec, cfg=res.cfg, generated=res.generated, distinct=res.distinct,
                 depth=res.depth, wall_s=round(res.wall, 1), verdict=res.verdict,
                 coverage=res.coverage))
        if not self.cov["checker_cmd"]:
            self.cov["checker_cmd"] = res.cmd

    def sample(self, s, limit=6):
        if len(self.cov["samples"]) < limit:
            self.cov["samples"].append(s)

    def save_replay(self, name, payload):
        os.makedirs(self.replay_dir, exist_ok=True)
        self._nrep += 1
        path = os.path.join(self.replay_dir, "%s-%03d.json" % (name, self._nrep))
        with open(path, "w") as f:
            json.dump(payload, f, indent=1, default=str)
        return path

    def violation(self, desc, payload, classes=()):
        """Report a disagreement.  `classes` are finding ids computed FROM THE INPUT
        (never from the observed output); if one of them is listed in
        known_findings.json the case is a known finding, else a violation."""
        for c in classes:
            if c in self.known:
                if c not in self.known_hit:
                    self.known_hit[c] = dict(desc=desc, n=0)
                self.known_hit[c]["n"] += 1
                return False
        if len(self.violations) < 25:
            path = self.save_replay("violation", dict(property=self.pid, desc=desc, case=payload))
        else:
            path = self.violations[-1][1]
        self.violations.append((desc, path))
        if os.environ.get("VERIF_STATS"):
            self.stats = getattr(self, "stats", {})
            key = payload.get("stat_key", "?") if isinstance(payload, dict) else "?"
            self.stats[key] = self.stats.get(key, 0) + 1
            self.stat_ex = getattr(self, "stat_ex", {})
            self.stat_ex.setdefault(key, desc)
        return True

    # -- end ---------------------------------------------------------
    def finish(self):
        wall = time.time() - self.t0
        for fid, hit in sorted(self.known_hit.items()):
            print("KNOWN-FINDING: property=%s %s [%s] (%d cases this run; e.g. %s)" % (
                self.pid, self.known[fid]["what"], fid, hit["n"], hit["desc"][:160]))
        if getattr(self, "stats", None):
            for k, n in sorted(self.stats.items(), key=lambda x: -x[1]):
                print("STAT %6d  %s\n        e.g. %s" % (n, k, " ".join(self.stat_ex[k].split())[:700]))
        seen = set()
        for desc, path in self.violations:
            if path in seen:
                continue
            seen.add(path)
            print("VIOLATION property=%s replay=%s  # %s" % (self.pid, path, " ".join(desc.split())[:240]))
        cov = dict(self.cov)
        cov["known_findings_matched"] = {k: v["n"] for k, v in self.known_hit.items()}
        cov.update(self.notes)
        if cov["states"] < 1 or cov["transitions"] < 1 or not cov["samples"]:
            raise MachineryError("evidence would be vacuous: %r" % {k: cov[k] for k in ("states", "transitions")})
        ev = dict(property_id=self.pid, tier=self.tier, seed=self.seed, level="model_checking",
                  coverage=cov, assumptions=self.assumptions, wall_s=round(wall, 2),
                  violations=len(self.violations))
        os.makedirs(os.path.join(OUT, "evidence"), exist_ok=True)
        with open(os.path.join(OUT, "evidence", self.pid + ".json"), "w") as f:
            json.dump(ev, f, indent=1, default=str)
            f.write("\n")
        if not os.environ.get("VERIF_KEEP_TMP"):
            shutil.rmtree(self.tmp, ignore_errors=True)
        print("%s %s: %d violation(s), %d known finding class(es), %d impl cases, %.0fs" % (
            self.pid, self.tier, len(self.violations), len(self.known_hit),
            cov["traces_validated_against_impl"], wall))
        return EXIT_VIOLATION if self.violations else EXIT_OK


def sha(s):
    return hashlib.sha256(s if isinstance(s, bytes) else s.encode()).hexdigest()[:16]
