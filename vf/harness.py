"""Build small C/C++ harness programs / shared objects from /verif/harness against the built tree."""
import fcntl, os, subprocess
from .common import BUILD, HARNESS, REPO, MachineryError
from . import build


def ensure(out_name, sources, flags=(), kind="hooked", link_idb=False, shared=False, cc=None):
    """Compile harness/<sources> into $BUILD/harness/<kind>/<out_name>; rebuilt when a source, the
    interrogatedb library or this tree's headers are newer.  Returns the output path."""
    outdir = os.path.join(BUILD, "harness", kind)
    os.makedirs(outdir, exist_ok=True)
    out = os.path.join(outdir, out_name)
    srcs = [s if os.path.isabs(s) else os.path.join(HARNESS, s) for s in sources]
    deps = list(srcs)
    lib = os.path.join(build.libdir(kind), "libinterrogatedb.so")
    if link_idb:
        deps.append(lib)
    with open(out + ".lock", "w") as lk:
        fcntl.flock(lk, fcntl.LOCK_EX)
        if os.path.exists(out) and all(os.path.getmtime(d) <= os.path.getmtime(out) for d in deps):
            return out
        is_c = all(s.endswith(".c") for s in srcs)
        cmd = [cc or ("gcc" if is_c else "g++"), "-O1", "-g"] + ([] if is_c else ["-std=c++17"])
        if shared:
            cmd += ["-shared", "-fPIC"]
        if link_idb:
            b = build.bdir(kind)
            cmd += ["-I" + os.path.join(REPO, "src", d) for d in ("interrogatedb", "dtoolbase", "dtoolutil", "cppparser")]
            cmd += ["-I" + os.path.join(b, "include"), "-I" + b, "-I" + os.path.join(b, "src", "dtoolbase")]
        cmd += list(flags) + srcs + ["-o", out]
        if link_idb:
            cmd += ["-L" + build.libdir(kind), "-linterrogatedb", "-Wl,-rpath," + build.libdir(kind)]
        if shared or is_c:
            cmd += ["-ldl"]
        r = subprocess.run(cmd, stdout=subprocess.PIPE, stderr=subprocess.STDOUT, text=True)
        if r.returncode != 0:
            raise MachineryError("harness build failed: %s\n%s" % (" ".join(cmd), r.stdout[-3000:]))
    return out
