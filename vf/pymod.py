"""Build an importable CPython extension module from `interrogate -python-native` output.

    so = build_module(workdir, "mymod", ["a.h", "b.h"], ["a.cxx", "b.cxx"])
    sys.path.insert(0, workdir); import mymod

pipeline: interrogate (-python-native -string, one run per library) -> interrogate_module ->
g++ (every translation unit compiled in parallel, -DHAVE_PYTHON, against /verif/shims) -> link.
interrogate / interrogate_module embed the runtime support (py_panda.*, py_support.*, py_wrappers.*,
dtool_super_base.cxx ...) of the tree they were built from in their output, so the runtime under
test is always the one of `$VERIF_REPO`; the only separately compiled support object is the shim
implementation, which is cached per build tree and flag set under $VERIF_BUILD/pymod/.

Every tool invocation goes through run.run_tool (run monitor).  Failures raise PymodError with
`.stage` in {"interrogate", "interrogate_module", "compile", "link"} and the tool's stderr, so a
caller decides whether that is a violation of its property or a machinery problem."""
import fcntl, os, subprocess, sys, sysconfig
from concurrent.futures import ThreadPoolExecutor
from .common import BUILD, REPO, SHIMS, sha
from . import build, run

# prelude a header can include so that the same text is valid for interrogate and for g++.
# (global declarations are published between __begin_publish / __end_publish; a macro END_PUBLISH is
# not offered here because interrogate exports a macro defined as __end_publish as a manifest)
PUBLISH_PRELUDE = """#pragma once
#ifdef CPPPARSER
#define PUBLISHED __published
#define MAKE_PROPERTY(...) __make_property(__VA_ARGS__)
#define MAKE_SEQ(...) __make_seq(__VA_ARGS__)
#define MAKE_SEQ_PROPERTY(...) __make_seq_property(__VA_ARGS__)
#define MAKE_MAP_PROPERTY(...) __make_map_property(__VA_ARGS__)
#define MAKE_MAP_KEYS_SEQ(...) __make_map_keys_seq(__VA_ARGS__)
#define EXTENSION(x) __extension x
#else
#define __begin_publish
#define __end_publish
#define PUBLISHED public
#define MAKE_PROPERTY(...)
#define MAKE_SEQ(...)
#define MAKE_SEQ_PROPERTY(...)
#define MAKE_MAP_PROPERTY(...)
#define MAKE_MAP_KEYS_SEQ(...)
#define EXTENSION(x)
#endif
"""


class PymodError(Exception):
    def __init__(self, stage, detail, cmd=""):
        Exception.__init__(self, "%s failed: %s\n%s" % (stage, cmd, detail))
        self.stage, self.detail, self.cmd = stage, detail, cmd


def py_includes():
    p = sysconfig.get_paths()
    return sorted(set(["-I" + p["include"], "-I" + p["platinclude"]]))


def cxx_flags(asan=False, opt="-O0", debug_checks=True):
    """flags every translation unit of a module is compiled with.  debug_checks=True leaves NDEBUG
    undefined: the generated range checks (OverflowError) and assertion reports are debug-only."""
    f = ["-std=c++17", opt, "-g0" if not asan else "-g1", "-fPIC", "-w", "-DHAVE_PYTHON",
         "-I" + SHIMS, "-I" + os.path.join(REPO, "src", "interrogatedb"),
         "-I" + os.path.join(REPO, "src", "dtoolbase")] + py_includes()
    if not debug_checks:
        f.append("-DNDEBUG")
    if asan:
        f += ["-fsanitize=address", "-fno-omit-frame-pointer"]
    return f


def asan_runtime():
    """path of libasan.so to LD_PRELOAD into the interpreter, or None"""
    r = subprocess.run(["g++", "-print-file-name=libasan.so"], stdout=subprocess.PIPE, text=True)
    p = r.stdout.strip()
    return os.path.realpath(p) if r.returncode == 0 and os.path.isabs(p) and os.path.exists(p) else None


def asan_env(extra=None):
    """environment for running the interpreter with an ASan-instrumented extension"""
    lib = asan_runtime()
    if lib is None:
        return None
    e = {"LD_PRELOAD": lib,
         "ASAN_OPTIONS": "detect_leaks=0:abort_on_error=1:allocator_may_return_null=1:handle_segv=0",
         "PYTHONMALLOC": "malloc"}
    e.update(extra or {})
    return e


def _compile(cmd, cwd, stage="compile"):
    r = subprocess.run(cmd, cwd=cwd, stdout=subprocess.PIPE, stderr=subprocess.STDOUT, text=True)
    if r.returncode != 0:
        raise PymodError(stage, r.stdout[-6000:], " ".join(cmd))


def shim_object(asan=False, opt="-O0"):
    """the compiled shim implementation, cached per build tree and flag set"""
    flags = cxx_flags(asan, opt)
    src = os.path.join(SHIMS, "shim_impl.cxx")
    deps = [os.path.join(SHIMS, f) for f in os.listdir(SHIMS)]
    d = os.path.join(BUILD, "pymod", sha(" ".join(flags) + sys.version))
    os.makedirs(d, exist_ok=True)
    out = os.path.join(d, "shim_impl.o")
    with open(out + ".lock", "w") as lk:
        fcntl.flock(lk, fcntl.LOCK_EX)
        if not (os.path.exists(out) and all(os.path.getmtime(x) <= os.path.getmtime(out) for x in deps)):
            _compile(["g++"] + flags + ["-c", src, "-o", out + ".tmp.o"], d)
            os.replace(out + ".tmp.o", out)
    return out


def interrogate_library(workdir, module, libname, headers, extra=(), kind="hooked", timeout=600):
    """one interrogate run: <libname>_igate.cxx + <libname>.in in workdir.  Returns the run record."""
    args = ["-oc", libname + "_igate.cxx", "-od", libname + ".in", "-module", module, "-library", libname,
            "-python-native", "-string", "-fnames", "-S", os.path.join(REPO, "parser-inc"),
            "-I" + workdir, "-DCPPPARSER", "-D__cplusplus=201703L"] + list(extra) + list(headers)
    r = run.run_tool("interrogate", args, cwd=workdir, timeout=timeout, kind=kind,
                     outputs=(libname + "_igate.cxx", libname + ".in"))
    if r.rc != 0 or r.timed_out or not all(r.outputs.values()):
        raise PymodError("interrogate", "rc=%s signal=%s timed_out=%s\n%s" % (r.rc, r.signal, r.timed_out, r.stderr[-6000:]),
                         "interrogate " + " ".join(args))
    return r


def build_module(workdir, name, headers, sources, libs=None, asan=False, opt="-O0", jobs=4,
                 interrogate_flags=(), cxxflags=(), kind="hooked", debug_checks=True, timeout=900):
    """Generate and build extension module `name` in workdir; returns the path of <name>.so.

    headers: header files handed to interrogate (relative to workdir or absolute);
    sources: C++ sources implementing them (compiled and linked into the module);
    libs:    optional [(libname, [headers])] for a module made of several libraries
             (default: one library "lib<name>" with all headers);
    jobs:    parallel compiler processes for this module."""
    workdir = os.path.abspath(workdir)
    os.makedirs(workdir, exist_ok=True)
    libs = libs or [("lib" + name, list(headers))]
    for libname, hdrs in libs:
        interrogate_library(workdir, name, libname, hdrs, interrogate_flags, kind, timeout)
    margs = ["-oc", name + "_module.cxx", "-module", name, "-library", name, "-python-native"] + \
            [libname + ".in" for libname, _ in libs]
    r = run.run_tool("interrogate_module", margs, cwd=workdir, timeout=timeout, kind=kind,
                     outputs=(name + "_module.cxx",))
    if r.rc != 0 or r.timed_out or not r.outputs[name + "_module.cxx"]:
        raise PymodError("interrogate_module", "rc=%s signal=%s\n%s" % (r.rc, r.signal, r.stderr[-6000:]),
                         "interrogate_module " + " ".join(margs))
    flags = cxx_flags(asan, opt, debug_checks) + ["-I" + workdir] + list(cxxflags)
    tus = [libname + "_igate.cxx" for libname, _ in libs] + [name + "_module.cxx"] + list(sources)
    objs = []

    def one(src):
        obj = os.path.splitext(os.path.basename(src))[0] + ".%s.o" % name
        _compile(["g++"] + flags + ["-c", src, "-o", obj], workdir)
        return obj
    with ThreadPoolExecutor(max_workers=max(1, jobs)) as ex:
        objs = list(ex.map(one, tus))
    so = os.path.join(workdir, name + ".so")
    link = ["g++", "-shared", "-o", so] + objs + [shim_object(asan, opt)]
    if asan:
        link.append("-fsanitize=address")
    _compile(link, workdir, "link")
    return so


def python_cmd():
    return [sys.executable, "-X", "faulthandler"]
