"""Child process: load .in databases through the C query interface of libinterrogatedb (ctypes)
and print one JSON document with every record and every field, keyed by raw index.

    python3 idbdump.py <libinterrogatedb.so> <interrogate_interface.h> file1.in [file2.in ...]

This is the projection function `database -> abstract state` used by several checks.  The
prototypes are taken from interrogate_interface.h itself, so every function of the interface is
reachable (`call` entries) and nothing is hard-coded about argument types."""
import ctypes, json, re, sys

C = ctypes
TYPES = {"int": C.c_int, "bool": C.c_bool, "void": None, "const char *": C.c_char_p, "void *": C.c_void_p,
         "ManifestIndex": C.c_int, "ElementIndex": C.c_int, "TypeIndex": C.c_int, "FunctionIndex": C.c_int,
         "FunctionWrapperIndex": C.c_int, "MakeSeqIndex": C.c_int, "AtomicToken": C.c_int}
DECL = re.compile(r"^EXPCL_INTERROGATEDB\s+(.+?)\s*\b(interrogate_\w+)\((.*?)\);", re.M)


def load(libpath, header):
    lib = C.CDLL(libpath)
    sig = {}
    for ret, name, args in DECL.findall(open(header).read()):
        ret = ret.strip()
        if ret.endswith("*") and not ret.endswith(" *"):
            ret = ret[:-1].strip() + " *"
        at = []
        for a in [x.strip() for x in args.split(",") if x.strip() and x.strip() != "void"]:
            m = re.match(r"(const char \*|void \*|\w+)\s*\w*$", a)
            at.append(m.group(1))
        try:
            fn = getattr(lib, name)
        except AttributeError:
            continue
        fn.restype = TYPES[ret]
        fn.argtypes = [TYPES[a] for a in at]
        sig[name] = (ret, at)
    return lib, sig


def val(x):
    if isinstance(x, bytes):
        return x.decode("latin-1")
    return x


class DB:
    def __init__(self, lib, sig):
        self.lib, self.sig = lib, sig

    def c(self, name, *a):
        return val(getattr(self.lib, "interrogate_" + name)(*a))

    def scalars(self, prefix, idx, index_type):
        """every interface function interrogate_<prefix>_X(index) with exactly one index argument"""
        out = {}
        for name, (ret, at) in self.sig.items():
            if name.startswith("interrogate_" + prefix + "_") and at == [index_type] and ret != "void *":
                out[name[len("interrogate_" + prefix + "_"):]] = val(getattr(self.lib, name)(idx))
        return out

    def type(self, t):
        d = self.scalars("type", t, "TypeIndex")
        c = self.c
        d["constructors"] = [c("type_get_constructor", t, i) for i in range(d["number_of_constructors"])]
        d["methods"] = [c("type_get_method", t, i) for i in range(d["number_of_methods"])]
        d["elements"] = [c("type_get_element", t, i) for i in range(d["number_of_elements"])]
        d["make_seqs"] = [c("type_get_make_seq", t, i) for i in range(d["number_of_make_seqs"])]
        d["casts"] = [c("type_get_cast", t, i) for i in range(d["number_of_casts"])]
        d["nested_types"] = [c("type_get_nested_type", t, i) for i in range(d["number_of_nested_types"])]
        d["derivations"] = [dict(base=c("type_get_derivation", t, i),
                                 has_upcast=c("type_derivation_has_upcast", t, i),
                                 upcast=c("type_get_upcast", t, i),
                                 downcast_is_impossible=c("type_derivation_downcast_is_impossible", t, i),
                                 has_downcast=c("type_derivation_has_downcast", t, i),
                                 downcast=c("type_get_downcast", t, i))
                            for i in range(d["number_of_derivations"])]
        d["enum_values"] = [dict(name=c("type_enum_value_name", t, i),
                                 scoped_name=c("type_enum_value_scoped_name", t, i),
                                 comment=c("type_enum_value_comment", t, i),
                                 value=c("type_enum_value", t, i))
                            for i in range(d["number_of_enum_values"])]
        return d

    def function(self, f):
        d = self.scalars("function", f, "FunctionIndex")
        d["c_wrappers"] = [self.c("function_c_wrapper", f, i) for i in range(d["number_of_c_wrappers"])]
        d["python_wrappers"] = [self.c("function_python_wrapper", f, i) for i in range(d["number_of_python_wrappers"])]
        return d

    def wrapper(self, w):
        d = self.scalars("wrapper", w, "FunctionWrapperIndex")
        c = self.c
        d["parameters"] = [dict(type=c("wrapper_parameter_type", w, i),
                                has_name=c("wrapper_parameter_has_name", w, i),
                                name=c("wrapper_parameter_name", w, i),
                                is_this=c("wrapper_parameter_is_this", w, i),
                                is_optional=c("wrapper_parameter_is_optional", w, i))
                           for i in range(d["number_of_parameters"])]
        return d


def dump(lib, sig, files):
    for f in files:
        lib.interrogate_request_database(f.encode())
    db = DB(lib, sig)
    c = db.c
    out = dict(types={}, functions={}, wrappers={}, elements={}, manifests={}, make_seqs={})
    out["global_types"] = [c("get_global_type", i) for i in range(c("number_of_global_types"))]
    out["all_types"] = [c("get_type", i) for i in range(c("number_of_types"))]
    out["global_functions"] = [c("get_global_function", i) for i in range(c("number_of_global_functions"))]
    out["all_functions"] = [c("get_function", i) for i in range(c("number_of_functions"))]
    out["all_manifests"] = [c("get_manifest", i) for i in range(c("number_of_manifests"))]
    out["globals"] = [c("get_global", i) for i in range(c("number_of_globals"))]
    out["error_flag"] = c("error_flag")
    todo_e, todo_s = set(out["globals"]), set()
    for t in sorted(set(out["all_types"]) | set(out["global_types"])):
        out["types"][t] = db.type(t)
        todo_e |= set(out["types"][t]["elements"])
        todo_s |= set(out["types"][t]["make_seqs"])
    todo_w = set()
    for f in sorted(set(out["all_functions"]) | set(out["global_functions"])):
        out["functions"][f] = db.function(f)
        todo_w |= set(out["functions"][f]["c_wrappers"]) | set(out["functions"][f]["python_wrappers"])
    for w in sorted(todo_w):
        out["wrappers"][w] = db.wrapper(w)
    for e in sorted(todo_e):
        out["elements"][e] = db.scalars("element", e, "ElementIndex")
    for m in sorted(out["all_manifests"]):
        out["manifests"][m] = db.scalars("manifest", m, "ManifestIndex")
    for s in sorted(todo_s):
        out["make_seqs"][s] = db.scalars("make_seq", s, "MakeSeqIndex")
    return out


if __name__ == "__main__":
    lib, sig = load(sys.argv[1], sys.argv[2])
    json.dump(dump(lib, sig, sys.argv[3:]), sys.stdout)
