"""TLC wrapper: run under timeout, own metadir, parse the summary (exit codes are not trusted)."""
import os, re, shutil, subprocess, time, json
from .common import SPECS, NCPU, MachineryError, scratch, seed

JAR = "/opt/veriftools/tla/tla2tools.jar:/opt/veriftools/tla/CommunityModules-deps.jar"


class TlcResult:
    def __init__(self):
        self.spec = self.cfg = self.cmd = ""
        self.generated = self.distinct = self.depth = 0
        self.wall = 0.0
        self.verdict = "unknown"   # ok | invariant | postcondition | temporal | deadlock | error
        self.violated = None
        self.coverage = {}
        self.out = ""


def run(spec, cfg=None, workers=None, env=None, simulate=None, depth=None, timeout=1500,
        coverage=False, xmx="12g", deadlock=True, extra=(), cwd=None, dfs=False):
    """spec: module name under specs/ (without .tla).  Returns TlcResult; raises MachineryError
    on anything that is not a clean verdict."""
    cwd = cwd or SPECS
    cfg = cfg or spec
    meta = scratch("tlc-" + spec)
    jopts = ["-XX:+UseParallelGC", "-Xmx" + xmx]
    if dfs:
        jopts.append("-Dtlc2.tool.queue.IStateQueue=StateDeque")
    cmd = ["timeout", str(timeout), "java"] + jopts + ["-cp", JAR, "tlc2.TLC",
           "-workers", str(workers or NCPU), "-metadir", meta, "-config", cfg + ".cfg",
           "-seed", str(seed()), "-noGenerateSpecTE"]
    if not deadlock:
        cmd.append("-deadlock")
    if coverage:
        cmd += ["-coverage", "1"]
    if simulate:
        cmd += ["-simulate", "num=%d" % simulate]
        if depth:
            cmd += ["-depth", str(depth)]
    cmd += list(extra) + [spec + ".tla"]
    e = dict(os.environ)
    e.update(env or {})
    t0 = time.time()
    p = subprocess.run(cmd, cwd=cwd, env=e, stdout=subprocess.PIPE, stderr=subprocess.STDOUT, text=True)
    r = TlcResult()
    r.spec, r.cfg, r.wall, r.out = spec, cfg, time.time() - t0, p.stdout
    r.cmd = "tlc " + " ".join(cmd[cmd.index("tlc2.TLC") + 1:])
    shutil.rmtree(meta, ignore_errors=True)
    out = p.stdout
    m = re.findall(r"(\d+) states generated, (\d+) distinct states found", out)
    if m:
        r.generated, r.distinct = int(m[-1][0]), int(m[-1][1])
    m = re.search(r"The depth of the complete state graph search is (\d+)", out)
    if m:
        r.depth = int(m.group(1))
    if simulate:
        m = re.search(r"(\d+) states checked", out) or re.search(r"generated (\d+) states", out)
        if m and not r.generated:
            r.generated = r.distinct = int(m.group(1))
    if coverage:
        for a, t, d in re.findall(r"<(\w+) line \d+, col \d+ to line \d+, col \d+ of module \w+>: (\d+):(\d+)", out):
            r.coverage[a] = [int(t), int(d)]
    if p.returncode == 124:
        r.verdict = "timeout"
    elif "Invariant " in out and " is violated" in out:
        r.verdict = "invariant"
        r.violated = re.search(r"Invariant (\S+) is violated", out).group(1)
    elif "Action property " in out and " is violated" in out:
        r.verdict = "invariant"
        r.violated = re.search(r"Action property (\S+) is violated", out).group(1)
    elif re.search(r"ostcondition .* (is false|was violated|violated)", out):
        r.verdict = "postcondition"
    elif "Temporal properties were violated" in out:
        r.verdict = "temporal"
    elif "Deadlock reached" in out:
        r.verdict = "deadlock"
    elif "Model checking completed. No error has been found" in out or \
            (simulate and p.returncode == 0):
        r.verdict = "ok"
    else:
        r.verdict = "error"
    return r


def validate_trace(spec, trace_path, cfg=None, timeout=900, dfs=False, env=None):
    """Trace validation idiom: the trace spec stutters only when the whole trace is consumed,
    so `ok` = accepted, `deadlock` = rejected (the last state printed is the longest matched
    prefix), `invariant` = an invariant of the spec is violated by the observed execution.
    Returns (status, detail) with status in accepted|rejected|invariant."""
    e = {"VERIF_TRACE": trace_path}
    e.update(env or {})
    r = run(spec, cfg or spec, workers=1, env=e, timeout=timeout, dfs=dfs)
    if r.verdict == "ok":
        return "accepted", r
    if r.verdict == "deadlock":
        m = re.findall(r"/\\ l = (\d+)", r.out)
        r.stuck_at = int(m[-1]) if m else None
        return "rejected", r
    if r.verdict == "invariant":
        m = re.findall(r"/\\ l = (\d+)", r.out)
        r.stuck_at = int(m[-1]) if m else None
        return "invariant", r
    raise MachineryError("trace validation %s: TLC verdict %s\n%s" % (spec, r.verdict, r.out[-3000:]))


def must_ok(res, what=""):
    if res.verdict != "ok":
        raise MachineryError("TLC %s on %s/%s: verdict=%s violated=%s\n%s" % (
            what, res.spec, res.cfg, res.verdict, res.violated, res.out[-3000:]))
    return res


def vacuous_actions(res, ignore=()):
    return [a for a, (t, d) in res.coverage.items() if t == 0 and a not in ignore]


def iter_dump(path):
    """Like read_dump, one record at a time (large dumps)."""
    if not os.path.exists(path):
        return
    with open(path) as f:
        for line in f:
            line = line.strip()
            if line:
                v = json.loads(line)
                if isinstance(v, str):      # CSVWrite quotes the JSON text
                    v = json.loads(v)
                yield v


def read_dump(path):
    """Records dumped with CSVWrite("%1$s", <<ToJson(rec)>>, file): one JSON value per line."""
    return list(iter_dump(path))
