"""CppLib records (dumped by TLC from specs/CppLib.tla and its extensions) -> C++ header trees, and the
projection of an interrogate database onto the entities of the record.

One *case* = one library record `lib` (+ what the spec demands for it).  Many cases share one interrogate run:
every name of case i carries the prefix k<i> / K<i>, every case has its own command-line file
sub/k<i>f1.h (+ sub/k<i>f1.N) and, if the library has a second file, its own k<i>f2.h placed where the
file's source class says (cwd, next to the includer, -I dir, -S dir, or on the command line)."""
import os, re

LABEL = {"published": "__published:", "public": "public:", "protected": "protected:", "private": "private:"}
BASE_T = {"void": "void", "int": "int", "double": "double", "bool": "bool"}


class Case:
    def __init__(self, i, rec):
        self.i = i
        self.rec = rec
        self.lib = rec["lib"]
        self.exp = rec.get("exp")
        self.cls = self.lib["classes"]
        self.tops = self.lib["tops"]
        self.aliases = self.lib.get("aliases", [])

    # ---- names -------------------------------------------------------------------------------
    def cname(self, c):
        like = self.cls[c - 1].get("like")
        return "K%dC%d" % (self.i, like or c)

    def ns(self):
        return "k%dns" % self.i

    def cscoped(self, c):
        k = self.cls[c - 1]
        if k["outer"]:
            return self.cscoped(k["outer"]) + "::" + self.cname(c)
        return (self.ns() + "::" if k["ns"] else "") + self.cname(c)

    def aname(self, a):
        return "K%dA%d" % (self.i, a)

    def ascoped(self, a):
        sc = self.aliases[a - 1]["scope"]
        return (self.cscoped(sc) + "::" if sc else "") + self.aname(a)

    WRAP = {"plain": "%s", "ptr": "%s *", "cptr": "const %s *", "cref": "const %s &", "rref": "%s &&", "val": "%s"}

    def alias_text(self, a):
        A = self.aliases[a - 1]
        target = self.cscoped(A["tc"]) if A["tt"] == "cls" else self.ascoped(A["tc"])
        ty = self.WRAP[A["wrap"]] % target
        if A["form"] == "using":
            return "using %s = %s;" % (self.aname(a), ty)
        return "typedef %s;" % (ty + " " + self.aname(a)).replace("* ", "*").replace("& ", "&").replace("&&" + self.aname(a), "&&" + self.aname(a))

    def use_alias(self, d):
        """C++ spelling of a type named through alias d["ra"], used as d["uw"]"""
        return self.WRAP[d["uw"]] % self.ascoped(d["ra"])

    def mname(self, c, j):
        m = self.cls[c - 1]["members"][j - 1]
        if m.get("nm"):
            return m["nm"]
        k = m["k"]
        if k == "gct":
            return "get_class_type"
        if k in ("dtor", "vdtor"):
            return "~" + self.cname(c)
        if self.lib.get("samename"):        # the same simple names in every class of the library
            return "k%dm%d" % (self.i, j)
        return "k%dc%dm%d" % (self.i, c, j)

    def ename(self, c, j):
        return "K%dC%dE%d" % (self.i, c, j)

    def tname(self, t):
        return "k%dt%d" % (self.i, t)

    def tscoped(self, t):
        return (self.ns() + "::" if self.tops[t - 1]["ns"] else "") + self.tname(t)

    def f1(self):
        return "sub/k%df1.h" % self.i

    def f2name(self):
        return "k%df2.h" % self.i

    def f2path(self):
        src = self.lib["files"][1]["src"]
        d = {"cmd": "sub/", "cwd": "", "adj": "sub/", "I": "inc/", "Icmd": "inc/", "S": "sys/", "Sangle": "sys/"}[src]
        return d + self.f2name()

    def file_ref(self, f):
        """_filename_as_referenced of file f (what `ignorefile` compares with)"""
        if f == 1:
            return self.f1()
        return self.f2path() if self.lib["files"][1]["src"] == "cmd" else self.f2name()

    # ---- visibility (for finding predicates over the input; the rule itself lives in CppLib.tla) ----
    RANK = {"published": 0, "public": 1, "protected": 2, "private": 3}

    def in_region(self, c):
        k = self.cls[c - 1]
        return self.in_region(k["outer"]) if k["outer"] else k["region"]

    def vis_at(self, c, j):
        k = self.cls[c - 1]
        v = "private" if k["key"] == "class" else "public"
        for m in k["members"][:j]:
            if m["lab"] != "same":
                v = "published" if m["lab"] == "public" and self.in_region(c) else m["lab"]
        return v

    def class_vis(self, c):
        k = self.cls[c - 1]
        if k["outer"]:
            return self.vis_at(k["outer"], k["at"])
        return "published" if k["region"] else "public"

    # ---- types -------------------------------------------------------------------------------
    def refname(self, rc, ri, frm=0):
        """C++ spelling of the type a declaration refers to"""
        if ri:
            return self.cscoped(rc) + "::" + self.ename(rc, ri) if frm != rc else self.ename(rc, ri)
        return self.cscoped(rc)

    def ty(self, t):
        b = BASE_T.get(t["b"]) or self.cscoped(t["c"])
        return {"val": "%s", "ptr": "%s *", "cptr": "const %s *", "ref": "%s &", "cref": "const %s &", "rref": "%s &&"}[t["m"]] % b

    # ---- declarations ------------------------------------------------------------------------
    def member_text(self, c, j):
        m = self.cls[c - 1]["members"][j - 1]
        k, n, C = m["k"], self.mname(c, j), self.cname(c)
        if k == "meth":
            return "void %s();" % n
        if k == "smeth":
            return "static void %s();" % n
        if k == "gct":
            return "static int get_class_type();"
        if k == "ctor":
            return "%s(int %s);" % (C, n)
        if k == "dtor":
            return "~%s();" % C
        if k == "data":
            return "int %s;" % n
        if k == "datap":
            return "%s *%s;" % (self.refname(m["rc"], 0), n)
        if k == "dataa":
            return "%s %s[2];" % (self.cname(m["rc"]), n)
        if k == "getter":
            return "int %s() const;" % n
        if k == "getter2":
            return "int %s(int, int) const;" % n
        if k == "seqbad":
            return "int %sn() const; int %s(float f) const;" % (n, n)
        if k == "tctor":
            return "template<class T> %s(const T &p1);" % C
        if k == "enumz":
            return "enum %s {\n  %sv = sizeof(int),\n  %sw\n};" % (self.ename(c, j), n, n)
        if k == "seqget":
            return "int %sn() const; int %s(int i) const;" % (n, n)
        if k == "mprop":
            return "__make_property(%s, %s);" % (n, self.mname(c, m["gi"]))
        if k == "mseq":
            g = self.mname(c, m["gi"])
            return "__make_seq(%s, %sn, %s);" % (n, g, g)
        if k == "ctorof":
            return "%s(const ::%s &p1);" % (C, self.cscoped(m["rc"]))
        if k == "cctor":
            return "%s(const %s &p1);" % (C, C)
        if k == "senum":
            return "enum class %s {\n  %sv\n};" % (self.ename(c, j), n)
        if k == "enum1":
            return "enum %s { %sv };" % (self.ename(c, j), n)
        if k == "enumc":
            return "enum %s { %sv, /* about %sw */ %sw };" % (self.ename(c, j), n, n, n)
        if k == "del":
            return "void %s() = delete;" % n
        if k == "tmpl":
            return "template<class T> void %s(T t);" % n
        if k == "friend":
            return "friend void %s(%s *p);" % (n, C)
        if k == "rval":
            return "void %s(int &&x);" % n
        if k == "tdef":
            return "typedef int %s;" % self.ename(c, j)
        if k == "enum":
            return "enum %s {\n  %sv\n};" % (self.ename(c, j), n)
        if k == "usee":
            return "void %s(%s x);" % (n, self.ename(m["rc"], m["ri"]))
        if k == "usep":
            return "void %s(%s *p);" % (n, self.refname(m["rc"], 0))
        if k == "user":
            return "%s *%s();" % (self.refname(m["rc"], 0), n)
        if k == "alias":
            return self.alias_text(m["ra"])
        if k == "usea":
            return "void %s(%s p);" % (n, self.use_alias(m))
        if k == "reta":
            return "%s %s();" % (self.use_alias(m), n)
        if k == "nclass":
            return self.class_text(m["rc"], "  ")
        if k == "vmeth":
            return "virtual void %s();" % n
        if k == "vdtor":
            return "virtual ~%s();" % C
        if k == "opeq":
            return "bool operator == (const %s &p1) const;" % C
        if k == "opneg":
            return "%s operator - () const;" % C
        if k == "cast":
            return "operator int () const;"
        if k == "cdata":
            return "const int %s;" % n
        if k == "sdata":
            return "static int %s;" % n
        if k == "sig":
            return self.sig_text(m["sig"], n, C)
        raise ValueError(k)

    DEFAULT = {"int": "7", "double": "1.5", "bool": "true", "cls": "nullptr"}

    def sig_text(self, s, n, C=None, redecl=None):
        """redecl: a later declaration [n, cm] of the same function - its own choice of naming, no defaults"""
        ps = []
        for q, p in enumerate(s["ps"], 1):
            t = self.ty(p["t"])
            named = p["n"] if redecl is None else redecl["n"]
            x = "%s p%d" % (t, q) if named else t
            if p["d"] and redecl is None:
                x += " = " + self.DEFAULT[p["t"]["b"]]
            ps.append(x)
        role = s["role"]
        pre = {"static": "static ", "virt": "virtual "}.get(role, "")
        post = " const" if role == "const" else " override" if role == "over" else ""
        if role == "ctor":
            return "%s(%s);" % (C, ", ".join(ps))
        if n.startswith("operator typecast "):
            return "operator %s ()%s;" % (n[len("operator typecast "):], post)
        return "%s%s %s(%s)%s;" % (pre, self.ty(s["ret"]), n, ", ".join(ps), post)

    def doc(self, style, what):
        """the documentation comment written in front of an entity ("" = none)"""
        if style == "//":
            return "// doc %s" % what
        if style == "/*":
            return "/* doc %s */" % what
        return ""

    def dbname(self, c, j):
        """name of the function a member stands for in the database"""
        m = self.cls[c - 1]["members"][j - 1]
        if m.get("nm"):
            return m["nm"]
        k = m["k"]
        return {"opeq": "operator ==", "opneg": "operator -", "cast": "operator typecast int",
                "vdtor": "~" + self.cname(c)}.get(k) or self.mname(c, j)

    def dbtype(self, t):
        """how the database names a type [b, m, c]"""
        b = BASE_T.get(t["b"]) or self.cscoped(t["c"])
        return {"val": "%s", "ptr": "%s *", "cptr": "%s const *", "ref": "%s &", "cref": "%s const &"}[t["m"]] % b

    def class_text(self, c, ind=""):
        k = self.cls[c - 1]
        bases = ", ".join(("%s%s %s" % ("virtual " if b["virt"] else "", "" if b["acc"] == "default" else b["acc"],
                                        self.cscoped(b["c"]))).strip().replace("  ", " ") for b in k["bases"])
        L = ["%s%s %s%s {" % (ind, k["key"], self.cname(c), " : " + bases if bases else "")]
        for j, m in enumerate(k["members"], 1):
            if m["lab"] != "same":
                L.append(ind + LABEL[m["lab"]])
            if m.get("cm"):
                L.append(ind + "  " + self.doc(m["cm"], self.mname(c, j)))
            L.append(ind + "  " + self.member_text(c, j).replace("\n", "\n  "))
        L.append(ind + "};")
        return "\n".join(L)

    def top_text(self, t):
        d = self.tops[t - 1]
        k, n = d["k"], self.tname(t)
        if k == "func":
            return "void %s();" % n
        if k == "sfunc":
            return "static void %s();" % n
        if k == "dfunc":
            return "void %s() = delete;" % n
        if k == "tfunc":
            return "template<class T> void %s(T t);" % n
        if k == "rfunc":
            return "void %s(int &&x);" % n
        if k == "usef":
            return "void %s(%s *p);" % (n, self.refname(d["rc"], 0))
        if k == "usefa":
            return "void %s(%s p);" % (n, self.use_alias(d))
        if k == "var":
            return "extern int %s;" % n
        if k == "macro":
            return "#define %s 7" % n
        if k == "fmacro":
            return "#define %s(x) x" % n
        if k == "tdefc":
            return "typedef %s %s;" % (self.refname(d["rc"], 0), n)
        if k == "sig":
            # (role "static" = no `this`; a namespace-scope function is written without the keyword)
            L = [self.sig_text(d["sig"], n).replace("static ", "", 1)]
            for r, rd in enumerate(d.get("re", []), 1):
                if rd["cm"]:
                    L.append(self.doc(rd["cm"], "%s_r%d" % (n, r)))
                L.append(self.sig_text(d["sig"], n, redecl=rd).replace("static ", "", 1))
            return "\n".join(L)
        raise ValueError(k)

    def wrap(self, text, region, ns, cmt=None):
        if cmt:
            text = cmt + "\n" + text
        if ns:
            text = "namespace %s {\n%s\n}" % (self.ns(), text)
        if region:
            text = "__begin_publish\n%s\n__end_publish" % text
        return text

    def file_text(self, f):
        L = ["#pragma once"]
        if f == 1 and len(self.lib["files"]) == 2 and self.lib["files"][1]["src"] != "cmd":
            L.append('#include <%s>' % self.f2name() if self.lib["files"][1]["src"] == "Sangle" else '#include "%s"' % self.f2name())
        for o in self.lib["order"]:
            if o["t"] == "c":
                k = self.cls[o["id"] - 1]
                if k["file"] == f:
                    L.append(self.wrap(self.class_text(o["id"]), k["region"], k["ns"], self.doc(k.get("cm"), self.cname(o["id"]))))
                    # out-of-class definitions of member functions (later declarations of the same function)
                    for j, m in enumerate(k["members"], 1):
                        for r, rd in enumerate(m.get("re", []), 1):
                            if rd["cm"]:
                                L.append(self.doc(rd["cm"], "%s_r%d" % (self.mname(o["id"], j), r)))
                            L.append("inline " + self.sig_text(m["sig"], self.cscoped(o["id"]) + "::" + self.mname(o["id"], j),
                                                               redecl=rd)[:-1] + " {}")
            elif o["t"] == "a":
                if self.aliases[o["id"] - 1]["file"] == f:
                    L.append(self.alias_text(o["id"]))
            else:
                d = self.tops[o["id"] - 1]
                if d["file"] == f:
                    L.append(self.wrap(self.top_text(o["id"]), d["region"], d["ns"], self.doc(d.get("cm"), self.tname(o["id"]))))
        return "\n".join(L) + "\n"

    def command_text(self):
        cm = self.lib["cmd"]
        c = cm["c"]
        if c == "none":
            return ""
        if c == "ignorefile":
            return "ignorefile %s\n" % self.file_ref(cm["k"])
        if c in ("ignoretype", "forcetype"):
            return "%s %s\n" % (c, self.cscoped(cm["k"]))
        if c == "ignoreinvolved":
            return "ignoreinvolved %s\n" % self.cname(cm["k"])
        if c == "ignoremember":
            k = self.cls[cm["k"] - 1]["members"][cm["i"] - 1]["k"]
            return "ignoremember %s\n" % (self.cname(cm["k"]) if k == "ctor" else self.mname(cm["k"], cm["i"]))
        raise ValueError(c)

    def write(self, root):
        """Writes the files of this case under root; returns the command-line file arguments in order."""
        two = len(self.lib["files"]) == 2
        args = []
        if two:
            p = os.path.join(root, self.f2path())
            with open(p, "w") as f:
                f.write(self.file_text(2))
            if self.lib["files"][1]["src"] == "cmd":
                args.append(self.f2path())
        with open(os.path.join(root, self.f1()), "w") as f:
            f.write(self.file_text(1))
        args.append(self.f1())
        if two and self.lib["files"][1]["src"] == "Icmd":
            args.append(self.f2path())
        ct = self.command_file_text()
        if ct:
            with open(os.path.join(root, self.f1()[:-2] + ".N"), "w") as f:
                f.write(ct)
        return args

    def command_file_text(self):
        """The .N file as written: layouts that all mean the one command of command_text()."""
        ct = self.command_text()
        if not ct:
            return ct
        body = ct[:-1]
        cmd, _, par = body.partition(" ")
        return [ct,                                                   # one line, newline-terminated
                body,                                                 # last line without a newline
                "# commands for this library\n\n  %s\t%s   # why\n" % (cmd, par),   # comments, blanks, indentation
                "\n%s  %s \n# trailing comment without newline" % (cmd, par)][self.i % 4]

    def text(self):
        """one-string rendering for reports"""
        out = []
        if len(self.lib["files"]) == 2:
            out.append("// --- %s  [%s]\n%s" % (self.f2path(), self.lib["files"][1]["src"], self.file_text(2)))
        out.append("// --- %s  [command line]\n%s" % (self.f1(), self.file_text(1)))
        if self.command_text():
            out.append("// --- .N: " + repr(self.command_file_text()))
        out.append("// min_vis = %s" % self.lib["minvis"])
        return "\n".join(out)


def make_tree(root):
    for d in ("sub", "inc", "sys"):
        os.makedirs(os.path.join(root, d), exist_ok=True)


INCLUDE_ARGS = ["-Iinc", "-Ssys"]
MARK = re.compile(r"\b[kK](\d+)(?:c(\d+)m(\d+)[vwn]?|C(\d+)E(\d+)|t(\d+))\b")


# ---- projection of the database ------------------------------------------------------------------
class DB:
    """Index of an idb.dump() document by scoped names (never by index numbers)."""

    def __init__(self, d):
        self.d = d
        self.types = {}
        for t in d["types"].values():
            self.types.setdefault(t["scoped_name"] or t["name"], t)
        self.funcs = {}
        for f in d["functions"].values():
            self.funcs.setdefault(f["scoped_name"], []).append(f)
        self.elems = {e["scoped_name"]: e for e in d["elements"].values()}
        self.manifests = {m["name"]: m for m in d["manifests"].values()}
        self.seqs = {m["scoped_name"]: m for m in d["make_seqs"].values()}

    def wrappers(self, f):
        return [self.d["wrappers"][str(w)] for w in f["c_wrappers"] + f["python_wrappers"] if str(w) in self.d["wrappers"]]

    def nwrap(self, scoped):
        return sum(len(self.wrappers(f)) for f in self.funcs.get(scoped, []))

    def fn(self, idx):
        return self.d["functions"].get(str(idx))

    def ty(self, idx):
        return self.d["types"].get(str(idx))

    def tyname(self, idx):
        t = self.ty(idx)
        return t["scoped_name"] or t["name"] if t else None


def observe_case(cs, db):
    """What the database says about the entities of the case, in the vocabulary of Export's Expected:
    known / defined / global types, callable declarations, classes with a destructor."""
    known, defined, glob, dtor, callable_ = set(), set(), set(), set(), set()
    for c, k in enumerate(cs.cls, 1):
        t = db.types.get(cs.cscoped(c))
        if t:
            known.add((c, 0))
            if t["is_fully_defined"]:
                defined.add((c, 0))
            if t["is_global"]:
                glob.add((c, 0))
            if t["has_destructor"]:
                dtor.add(c)
        for j, m in enumerate(k["members"], 1):
            kind, n = m["k"], cs.mname(c, j)
            sc = cs.cscoped(c) + "::" + n
            if kind == "enum":
                e = db.types.get(cs.cscoped(c) + "::" + cs.ename(c, j))
                if e:
                    known.add((c, j))
                    if e["is_fully_defined"]:
                        defined.add((c, j))
            elif kind in ("nclass", "alias"):
                pass
            elif kind == "ctor":
                for f in db.funcs.get(cs.cscoped(c) + "::" + cs.cname(c), []):
                    if any(any(p["name"] == n for p in w["parameters"]) for w in db.wrappers(f)):
                        callable_.add(("m", c, j))
            elif kind == "dtor":
                if t and t["has_destructor"] and t["is_fully_defined"] and db.funcs.get(sc):
                    callable_.add(("m", c, j))
            elif kind == "mprop":
                if sc in db.elems:
                    callable_.add(("m", c, j))
            elif kind == "mseq":
                if sc in db.seqs:
                    callable_.add(("m", c, j))
            elif kind == "seqget":
                if db.nwrap(sc) or db.nwrap(sc + "n"):
                    callable_.add(("m", c, j))
            elif kind in ("data", "datap", "dataa"):
                e = db.elems.get(sc)
                if e and (e["has_getter"] or e["has_setter"]):
                    callable_.add(("m", c, j))
                elif db.nwrap(cs.cscoped(c) + "::get_" + n) or db.nwrap(cs.cscoped(c) + "::set_" + n):
                    callable_.add(("m", c, j))
            elif kind == "tdef":
                if cs.cscoped(c) + "::" + cs.ename(c, j) in db.types:
                    callable_.add(("m", c, j))
            elif kind == "friend":
                if db.nwrap(sc) or db.nwrap(n) or db.nwrap(cs.ns() + "::" + n):
                    callable_.add(("m", c, j))
            else:
                if db.nwrap(sc):
                    callable_.add(("m", c, j))
    for t, d in enumerate(cs.tops, 1):
        n, sc = cs.tname(t), cs.tscoped(t)
        if d["k"] in ("macro", "fmacro"):
            if n in db.manifests:
                callable_.add(("t", 0, t))
        elif d["k"] == "var":
            e = db.elems.get(sc)
            if e or db.nwrap("get_" + n) or db.nwrap(cs.ns() + "::get_" + n):
                callable_.add(("t", 0, t))
        elif d["k"] == "tdefc":
            pass
        else:
            if db.nwrap(sc):
                callable_.add(("t", 0, t))
    return dict(known=known, defined=defined, glob=glob, dtor=dtor, callable=callable_)


def expected_case(cs):
    e = cs.exp
    return dict(known={(x["c"], x["i"]) for x in e["known"]},
                defined={(x["c"], x["i"]) for x in e["defined"]},
                glob={(x["c"], x["i"]) for x in e["global"]},
                dtor=set(e["dtor"]),
                callable={(x["t"], x["c"], x["i"]) for x in e["callable"]})


def markers_in_code(text):
    """entity markers mentioned anywhere in generated code: {(case, ('m', c, j) | ('t', 0, t))}"""
    out = set()
    for m in MARK.finditer(text):
        i = int(m.group(1))
        if m.group(2):
            out.add((i, ("m", int(m.group(2)), int(m.group(3)))))
        elif m.group(4):
            out.add((i, ("m", int(m.group(4)), int(m.group(5)))))
        else:
            out.add((i, ("t", 0, int(m.group(6)))))
    return out
