"""Database projection: dump .in files through the query interface in a child process."""
import json, os, subprocess, sys
from .common import REPO, MachineryError
from . import build

HERE = os.path.dirname(os.path.abspath(__file__))


def dump(files, kind="hooked", timeout=120, cwd=None):
    """Returns the JSON document of vf/idbdump.py (keys of the record maps are strings)."""
    lib = os.path.join(build.libdir(kind), "libinterrogatedb.so")
    hdr = os.path.join(REPO, "src", "interrogatedb", "interrogate_interface.h")
    p = subprocess.run([sys.executable, os.path.join(HERE, "idbdump.py"), lib, hdr] + list(files),
                       stdout=subprocess.PIPE, stderr=subprocess.PIPE, timeout=timeout, cwd=cwd)
    if p.returncode != 0:
        return dict(crashed=p.returncode, stderr=p.stderr.decode("utf-8", "replace")[-2000:])
    return json.loads(p.stdout)


def by_name(d, kind="types", key="scoped_name"):
    return {r[key]: r for r in d[kind].values()}
