"""C01 renderer: libraries and call scripts dumped by TLC (specs/WrapC.tla, CppLibCalls.tla) ->
one generated C++ header + implementation + native driver per batch, and the resolved call
scripts both drivers (native C++, wrapper through the database) execute.

Every parameter is named after its position and kind (a1_string, a2_objVal): the database records the
names, and they tell apart overloads whose wrappers have the same parameter types.  The K0 part of every
class owns a heap-allocated std::string payload (copy and move constructors defaulted), read through the
published accessor vf_tag(); by-value object parameters modify their own copy.

Nothing here decides a verdict: the expected values come from the spec, the C++ bodies compute
the same Sem (harness/wrapc_rt.h) and spec != native is a MachineryError in the check."""
import json

KIND_SEQ = ["i8", "u8", "i16", "u16", "i32", "u32", "i64", "u64", "long", "ulong", "f32", "f64",
            "bool", "enum", "cstr", "string", "objPtr", "objRef", "objVal", "constObjRef", "void",
            "enumC", "enumLL", "strPtr", "arrI32", "arrF32", "arrObj"]
FK_SEQ = ["free", "method", "cmethod", "static", "ctor", "getter", "setter",
          "opIndex", "opCall", "opAsg", "opCast", "opEq", "opIndexRef", "opInc", "opDec", "opBin"]
CLS_SEQ = ["-", "K0", "K1", "K2", "KB", "Mix", "K3"]
CLASSES = CLS_SEQ[1:]
BASES = {"K0": [], "K1": ["K0"], "K2": ["K0"], "KB": [], "Mix": ["K0", "KB"], "K3": ["K0"]}
OBJ_KINDS = ("objPtr", "objRef", "objVal", "constObjRef")
STR_KINDS = ("cstr", "string", "strPtr")
ARR_KINDS = ("arrI32", "arrF32", "arrObj")
ARR_ELEMS = {"arrI32": ("int", 3), "arrF32": ("float", 2)}
ENUMC_VALS = {-3: "EnC::c0", 0: "EnC::c1", 100: "EnC::c2"}
ENUML_VALS = {0: "EnL::l0", 5000000000: "EnL::l1", -5000000000: "EnL::l2"}
# data members every K0 has; array members exist only in families made for them (see Packer / features)
DATA_KINDS = [k for k in KIND_SEQ[:16] if k != "cstr"] + ["objPtr", "enumC", "enumLL"]
ALL_DATA_KINDS = DATA_KINDS + list(ARR_KINDS)
STMOD = 32768
TABLE = ["", "a b", "The quick brown fox jumps over the lazy dog. " + "x" * 155, "q\"uo\\te'",
         "\u00e9\u20ac\U0001f600~",          # UTF-8: 2-, 3- and 4-byte sequences
         "a b\0tail"]                        # embedded NUL followed by more data (entry 1 up to the NUL)
assert len(TABLE[2]) == 200


def c_view(text):
    """CppLibCalls!CView: a std::string as a caller sees it through a NUL-terminated char * (C back-end)"""
    return text.split("\0")[0] if isinstance(text, str) else text

CTYPE = {"i8": "signed char", "u8": "unsigned char", "i16": "short", "u16": "unsigned short", "i32": "int",
         "u32": "unsigned int", "i64": "long long", "u64": "unsigned long long", "long": "long",
         "ulong": "unsigned long", "f32": "float", "f64": "double", "bool": "bool", "enum": "En",
         "cstr": "const char *", "void": "void", "enumC": "EnC", "enumLL": "EnL", "strPtr": "const std::string *"}


def has_this(s):
    return s["fk"] not in ("free", "static", "ctor")


def const_this(s):
    return s["fk"] in ("cmethod", "getter", "opIndex", "opCast", "opEq", "opBin")


def has_k0(c):
    return c != "KB"


def has_kb(c):
    return c in ("KB", "Mix")


def derives(c, b):
    return c == b or b in BASES[c]


def sig_key(s):
    return (s["fk"], s["cls"], s["name"], s["ret"], tuple(s["ps"]), s["nd"])


def sig_id(s):
    """CppLibCalls!SigId"""
    ps = list(s["ps"]) + [None] * 3
    pid = [KIND_SEQ.index(p) + 1 if p else 0 for p in ps[:3]]
    x = FK_SEQ.index(s["fk"]) * 7 + CLS_SEQ.index(s["cls"])
    x = x * 28 + KIND_SEQ.index(s["ret"])
    for p in pid:
        x = x * 28 + p
    return x * 4 + s["nd"]


def call_type(k):
    return "obj" if k in ("objRef", "objVal", "constObjRef") else k


def decl_np(s):
    """CppLibCalls!DeclNP: int &operator [](K) carries the two parameters of its item-assignment wrapper"""
    return 1 if s["fk"] == "opIndexRef" else len(s["ps"])


def call_sigs(s):
    n = decl_np(s)
    return set(tuple(call_type(k) for k in s["ps"][:n - k]) for k in range(s["nd"] + 1))


def cpp_name_group(s):
    """key of the C++ name a signature is declared under, or None when the name is unique to the signature"""
    fk = s["fk"]
    if fk in ("opIndex", "opIndexRef"):
        return (s["cls"], "index")
    if fk == "opAsg":
        return (s["cls"], "opAsg", ASG_TOKEN[s["ret"]])
    if fk in ("ctor", "opCall", "opEq", "opInc", "opDec", "opBin"):
        return (s["cls"], fk)
    if fk == "opCast":
        return (s["cls"], "opCast", s["ret"])
    return None


ASG_TOKEN = {"objRef": "+=", "i32": "-=", "objVal": "*="}


def lib_features(lib):
    """constructs whose wrappers are known not to compile in some option set are rendered into batches of their
    own (a predicate over the library), so that they cannot take the rest of the replay down with them"""
    f = set()
    for s in lib:
        if s["fk"] == "setter" and s["ps"][0] in ("arrI32", "arrF32"):
            f.add("arr")
        if s["fk"] == "getter" and s["ret"] == "arrObj":
            f.add("arrobj")
    return frozenset(f)


def this_is_cand(s):
    return has_this(s) and has_k0(s["cls"]) and (s["ret"] == "constObjRef" or not const_this(s))


def cand_params(s):
    ok = ("objPtr", "objRef", "constObjRef") if s["ret"] == "constObjRef" else ("objPtr", "objRef")
    return [i for i, k in enumerate(s["ps"]) if k in ok]


def defval(kind, i):
    """CppLibCalls!DefVal (i is the 1-based parameter position), as a spec value"""
    return {"i8": -2 - i, "u8": 200 + i, "i16": -300 - i, "u16": 40000 + i, "i32": -70000 - i, "u32": -5 - i,
            "i64": [-2, i], "long": [-2, i], "u64": [-3, 7 + i], "ulong": [-3, 7 + i], "f32": 12 + i,
            "f64": 16777217 + i, "bool": i % 2, "enum": 5, "cstr": {"t": 1, "n": -1}, "string": {"t": 1, "n": -1},
            "objPtr": 0, "enumC": 100, "enumLL": [1, 705032704]}[kind]


def val(kind, v):
    """spec value (32-bit patterns, pairs, k, [t,n], object id) -> canonical concrete value"""
    if kind in ("i8", "u8", "i16", "u16", "i32", "bool", "enum", "f32", "f64", "enumC", "arrObj"):
        return v
    if kind in ("arrI32", "arrF32"):
        return list(v)
    if kind == "enumLL":
        return val("i64", v)
    if kind == "u32":
        return v & 0xffffffff
    if kind in ("i64", "long", "u64", "ulong"):
        x = ((v[0] & 0xffffffff) << 32) | (v[1] & 0xffffffff)
        if kind in ("i64", "long") and x >= 1 << 63:
            x -= 1 << 64
        return x
    if kind in STR_KINDS:
        return TABLE[v["t"]] + ("#%d" % v["n"] if v["n"] >= 0 else "")
    if kind in OBJ_KINDS:
        return v
    if kind == "void":
        return None
    raise ValueError(kind)


def cpp_literal(kind, v):
    """C++ literal of canonical value v (default arguments)"""
    if kind in ("i8", "i16", "i32"):
        return "(%d)" % v if v != -2147483648 else "(-2147483647 - 1)"
    if kind in ("u8", "u16"):
        return "%d" % v
    if kind == "u32":
        return "%du" % v
    if kind == "i64":
        return "(%dLL)" % v
    if kind == "u64":
        return "%dULL" % v
    if kind == "long":
        return "(%dL)" % v
    if kind == "ulong":
        return "%dUL" % v
    if kind == "f32":
        return "%sf" % repr(v / 8.0)
    if kind == "f64":
        return repr(v / 8.0)
    if kind == "bool":
        return "true" if v else "false"
    if kind == "enum":
        return {0: "e0", 5: "e1", 70000: "e2"}[v]
    if kind == "enumC":
        return ENUMC_VALS[v]
    if kind == "enumLL":
        return ENUML_VALS[v]
    if kind in STR_KINDS:
        return json.dumps(v)
    if kind == "objPtr":
        return "nullptr"
    raise ValueError(kind)


# ---------------------------------------------------------------------------------------------
class Fn:
    """one generated C++ function / constructor / operator"""

    def __init__(self, gid, fam, sig, cname):
        self.gid, self.fam, self.sig, self.cname = gid, fam, sig, cname
        self.sid = sig_id(sig)
        self.cls = sig["cls"]

    @property
    def cxxcls(self):
        return None if self.cls == "-" else "%s_%d" % (self.cls, self.fam)

    @property
    def scoped(self):
        return self.cname if self.cls == "-" else "%s::%s" % (self.cxxcls, self.cname)

    def desc(self):
        return dict(gid=self.gid, fam=self.fam, sig=self.sig, cname=self.cname, cls=self.cxxcls, sid=self.sid)


CREF_KINDS = ("i32", "u16", "f64", "bool", "i64", "enum")


def ptype(kind, pos, fam, sid=0):
    """C++ spelling of a parameter of spec kind `kind`.  A kind is a value category, not a spelling: simple
    kinds are also written `const T &` (remapped by ParameterRemapReferenceToConcrete), std::string by value
    and by const reference; which spelling a parameter gets is a fixed function of (signature id, position)."""
    if kind in CREF_KINDS and pos and (sid + pos) % 3 == 0:
        return "const %s &" % CTYPE[kind]
    if kind in CTYPE:
        return CTYPE[kind]
    if kind == "string":
        return "const std::string &" if (sid + pos) % 2 == 1 else "std::string"
    k0 = "K0_%d" % fam
    return {"objPtr": k0 + " *", "objRef": k0 + " &", "objVal": k0, "constObjRef": "const " + k0 + " &"}[kind]


def rtype(fn):
    s = fn.sig
    if s["fk"] == "opAsg" and s["ret"] == "objRef":
        return fn.cxxcls + " &"
    if s["fk"] == "opIndexRef":
        return "int &"
    k = s["ret"]
    if k == "string":
        # by value (ParameterRemapBasicStringToString) or by const reference (...RefToString)
        return "const std::string &" if ret_string_ref(fn) else "std::string"
    return ptype(k, 0, fn.fam)


def ret_string_ref(fn):
    return fn.sig["ret"] == "string" and fn.sig["fk"] in ("method", "static", "free") and fn.sid % 2 == 1


def is_virtual(fn):
    return fn.sig["fk"] in ("method", "cmethod") and (fn.sid // 4) % 3 == 0


OVERRIDERS = ("K1", "Mix", "K3")


def is_overridden(fn):
    """CppLibCalls!Virt: a virtual member function of K0 is overridden in K1, Mix and K3 (not in K2)"""
    return is_virtual(fn) and fn.sig["cls"] == "K0"


def pname(fn, i):
    """parameter i (0-based): named after position and kind; the database records the name, and it is what
    tells apart overloads whose wrappers have the same parameter types"""
    return "a%d_%s" % (i + 1, fn.sig["ps"][i])


def params_text(fn, with_defaults):
    s = fn.sig
    n = len(s["ps"])
    out = []
    for i, k in enumerate(s["ps"][:decl_np(s)]):
        t = ptype(k, i + 1, fn.fam, fn.sid)
        if s["fk"] in ("opInc", "opDec"):
            t = "int"                   # the dummy parameter of the postfix form
        d = ""
        if with_defaults and i >= n - s["nd"]:
            d = " = " + cpp_literal(k, val(k, defval(k, i + 1)))
        out.append("%s%s%s%s" % (t, "" if t.endswith(("*", "&")) else " ", pname(fn, i), d))
    return ", ".join(out)


def decl_name(fn):
    fk = fn.sig["fk"]
    if fk == "opCast":
        return "operator %s" % rtype(fn)
    return fn.cname


def declaration(fn, override=False):
    s = fn.sig
    fk = s["fk"]
    if override:
        return "%s %s(%s)%s override;" % (rtype(fn), fn.cname, params_text(fn, True), " const" if const_this(s) else "")
    if fk == "ctor":
        return "%s(%s);" % (fn.cxxcls, params_text(fn, True))
    if fk == "opCast":
        return "operator %s() const;" % rtype(fn)
    pre = "static " if fk == "static" else "virtual " if is_virtual(fn) else ""
    post = " const" if const_this(s) else ""
    return "%s%s %s(%s)%s;" % (pre, rtype(fn), fn.cname, params_text(fn, True), post)


ARG_STMT = {"i8": "c.s(%s);", "i16": "c.s(%s);", "i32": "c.s(%s);", "u8": "c.u(%s);", "u16": "c.u(%s);", "u32": "c.u(%s);",
            "i64": "c.s64(%s);", "long": "c.s64(%s);", "u64": "c.u64(%s);", "ulong": "c.u64(%s);",
            "f32": "c.fl(%s);", "f64": "c.fl(%s);", "bool": "c.b(%s);", "enum": "c.u((unsigned int)%s);",
            "cstr": "c.str(%s);", "string": "c.str(%s);", "strPtr": "c.str(*%s);",
            "enumC": "c.s((int)%s);", "enumLL": "c.s64((long long)%s);"}


K0PART = "(st + 7 * (vf_tag() + 1)) % 32768"


def this_state_expr(cls):
    """CppLibCalls!ThisState"""
    return {"KB": "bst", "Mix": "(%s + 7 * bst) %% 32768" % K0PART}.get(cls, K0PART)


def body(fn, override=None):
    """statements of the function body; override = the class whose override of a virtual K0 function this is"""
    s = fn.sig
    fk = s["fk"]
    k0 = "K0_%d" % fn.fam
    L = []
    ts = this_state_expr(s["cls"]) if has_this(s) else "0"
    oc = CLS_SEQ.index(override) + 1 if override else 0      # CppLibCalls!ClsIdx is 1-based
    L.append("vfrt::Call c(%d, %dL, %s);" % (fn.gid + 1000000 * oc, fn.sid, ts))
    for i, k in enumerate(s["ps"][:decl_np(s)]):
        a = pname(fn, i)
        if k == "objPtr":
            L.append("c.obj(%s == 0, %s ? %s->st : 0, %s ? %s->vf_tag() : 0);" % (a, a, a, a, a))
        elif k in OBJ_KINDS:
            L.append("c.obj(false, %s.st, %s.vf_tag());" % (a, a))
        else:
            L.append(ARG_STMT[k] % a)
    L.append("long m = c.mix() + %dL; (void)m;" % (1000003 * oc))
    if fk in ("opInc", "opDec") and s["ret"] == "objVal":
        L.append("%s old(*this);" % k0)          # postfix: the result holds the value before the call
    if fk == "ctor":
        if has_k0(s["cls"]):
            L.append("st = (int)(m % 32768); vf_settag((m / 7) % 1000);")
        if has_kb(s["cls"]):
            L.append("bst = (int)((m / 32768) % 32768);")
    elif has_this(s) and not const_this(s) and fk != "opIndexRef":
        if s["cls"] == "KB":
            L.append("bst = (int)((bst + c.weight()) % 32768);")
        else:
            L.append("st = (int)((st + c.weight()) % 32768);")
            if s["cls"] == "Mix":
                L.append("bst = (bst + 1) % 32768;")
    # candidates are collected before the arguments are touched (addresses only)
    r = s["ret"]
    if fk not in ("opAsg", "opInc", "opDec") and r in ("objPtr", "objRef", "constObjRef"):
        L.append("%s *cands[4]; int nc = 0;" % k0)
        if this_is_cand(s):
            L.append("cands[nc++] = (%s *)this;" % k0)
        for i in cand_params(s):
            a = pname(fn, i)
            if s["ps"][i] == "objPtr":
                L.append("if (%s) cands[nc++] = %s;" % (a, a))
            else:
                L.append("cands[nc++] = (%s *)&%s;" % (k0, a))
    for i, k in enumerate(s["ps"]):
        a = pname(fn, i)
        if k == "objPtr":
            L.append("if (%s) { %s->st = (%s->st + 3) %% 32768; %s->vf_settag((%s->vf_tag() + 1) %% 1000); }" % (a, a, a, a, a))
        elif k == "objRef":
            L.append("%s.st = (%s.st + 3) %% 32768; %s.vf_settag((%s.vf_tag() + 1) %% 1000);" % (a, a, a, a))
        elif k == "objVal":
            # the callee's own copy: modifying it must not show in the caller's object
            L.append("%s.st = (%s.st + 5) %% 32768; %s.vf_settag((%s.vf_tag() + 2) %% 1000);" % (a, a, a, a))
    if fk == "opIndexRef":
        root = "KB_%d" % fn.fam if s["cls"] == "KB" else k0
        L.append("return %s::vf_items[c.lasth %% 4];" % root)
    elif fk == "ctor" or r == "void":
        pass
    elif fk in ("opAsg", "opInc", "opDec") and r == "objRef":
        L.append("return *this;")
    elif fk in ("opInc", "opDec"):
        L.append("return old;")
    elif r == "enumC":
        L.append("return (EnC)vfrt::enc_enumc(m);")
    elif r == "enumLL":
        L.append("return (EnL)vfrt::enc_enuml(m);")
    elif r == "enum":
        L.append("return (En)vfrt::enc_enum(m);")
    elif r == "cstr":
        L.append("static std::string hold; return vfrt::enc_cstr(m, hold);")
    elif r == "string" and ret_string_ref(fn):
        L.append("static std::string hold; hold = vfrt::enc_string(m); return hold;")
    elif r == "objPtr":
        L.append("return vfrt::enc_ptr(m, cands, nc, true);")
    elif r in ("objRef", "constObjRef"):
        L.append("return *vfrt::enc_ptr(m, cands, nc, false);")
    elif r == "objVal":
        L.append("return %s(vfrt::Raw(), (int)(m %% 32768), (int)(((m %% 32768) / 7) %% 1000));" % k0)
    elif r in ("long", "ulong"):
        L.append("return (%s)vfrt::enc_%s(m);" % (CTYPE[r], "i64" if r == "long" else "u64"))
    else:
        L.append("return vfrt::enc_%s(m);" % r)
    return L


def definition(fn):
    s = fn.sig
    fk = s["fk"]
    if fk in ("getter", "setter"):
        return ""
    if fk == "ctor":
        c = s["cls"]
        init = {"K0": "", "K1": " : K0_%d(vfrt::Raw(), 0, 0)", "K2": " : K0_%d(vfrt::Raw(), 0, 0)", "KB": "",
                "Mix": " : K0_%d(vfrt::Raw(), 0, 0), KB_%d(vfrt::Raw(), 0)", "K3": " : K0_%d(vfrt::Raw(), 0, 0)"}[c]
        init = init.replace("%d", str(fn.fam))
        head = "%s::%s(%s)%s" % (fn.cxxcls, fn.cxxcls, params_text(fn, False), init)
        pre = ["vf_init();"] if c in ("K0", "KB") else []
        return "%s {\n  %s\n}\n" % (head, "\n  ".join(pre + body(fn)))
    scope = "" if fn.cls == "-" else fn.cxxcls + "::"
    post = " const" if const_this(s) else ""
    if fk == "opCast":
        head = "%soperator %s()%s" % (scope, rtype(fn), post)
    else:
        head = "%s %s%s(%s)%s" % (rtype(fn), scope, fn.cname, params_text(fn, False), post)
    out = "%s {\n  %s\n}\n" % (head, "\n  ".join(body(fn)))
    if is_overridden(fn):
        for c in OVERRIDERS:
            head = "%s %s_%d::%s(%s)%s" % (rtype(fn), c, fn.fam, fn.cname, params_text(fn, False), post)
            out += "%s {\n  %s\n}\n" % (head, "\n  ".join(body(fn, c)))
    return out


DATA_INIT = {"bool": "true", "enum": "e1", "string": "\"a b\"", "objPtr": "nullptr", "f32": "1.5f", "f64": "1.5",
             "enumC": "EnC::c1", "enumLL": "EnL::l0"}
ORDER = ["KB", "K0", "K1", "K2", "Mix", "K3"]      # KB first: K0 may hold an array of KB objects


def data_kinds(features):
    return DATA_KINDS + (["arrI32", "arrF32"] if "arr" in features else []) + (["arrObj"] if "arrobj" in features else [])


def base_ctor_sig(c):
    return dict(fk="ctor", cls=c, name=0, ret="void", ps=["i32"], nd=0)


class Batch:
    """families of classes + free functions; one header / implementation / native driver"""

    def __init__(self, index):
        self.index = index
        self.fams = []        # family numbers
        self.fns = []         # Fn
        self.features = frozenset()   # wraplib.lib_features of every library in this batch

    # -- header ---------------------------------------------------------------------------
    def header(self, promiscuous=False):
        pub = "public" if promiscuous else "PUBLISHED"
        L = ["#ifndef LIB%d_H" % self.index, "#define LIB%d_H" % self.index, "#include <string>",
             "#ifdef CPPPARSER", "#define PUBLISHED __published", "#define BEGIN_PUBLISH __begin_publish",
             "#define END_PUBLISH __end_publish", "#else", "#define PUBLISHED public", "#define BEGIN_PUBLISH",
             "#define END_PUBLISH", "namespace vfrt { struct Raw; }", "#endif", "",
             "" if promiscuous else "BEGIN_PUBLISH",
             "enum En { e0, e1 = 5, e2 = 70000 };",
             "enum class EnC : char { c0 = -3, c1 = 0, c2 = 100 };",
             "enum class EnL : long long { l0 = 0, l1 = 5000000000LL, l2 = -5000000000LL };",
             "" if promiscuous else "END_PUBLISH", ""]
        for f in self.fams:
            byc = {c: [fn for fn in self.fns if fn.fam == f and fn.cls == c] for c in CLS_SEQ}
            heads = {"K0": "class K0_%d" % f, "K1": "class K1_%d : public K0_%d" % (f, f),
                     "K2": "class K2_%d : public K0_%d" % (f, f), "KB": "class KB_%d" % f,
                     "Mix": "class Mix_%d : public K0_%d, public KB_%d" % (f, f, f),
                     "K3": "class K3_%d : virtual public K0_%d" % (f, f)}
            L.append("class K0_%d;" % f)
            for c in ORDER:
                L.append(heads[c] + " {")
                L.append(pub + ":")
                for fn in byc[c]:
                    if fn.sig["fk"] not in ("getter", "setter"):
                        L.append("  " + declaration(fn))
                if c in OVERRIDERS:
                    for fn in byc["K0"]:
                        if is_overridden(fn):
                            L.append("  " + declaration(fn, True))
                if c == "K0":
                    L.append("  int vf_tag() const;")       # Read: the number the payload spells (-1: no payload text)
                    L.append("  int st;")
                    for k in DATA_KINDS:
                        L.append("  %s%sd_%s;" % (ptype(k, 0, f), "" if k == "objPtr" else " ", k))
                    if "arr" in self.features:
                        L.append("  int d_arrI32[3];")
                        L.append("  float d_arrF32[2];")
                        L.append("  int vf_celli(int i) const;")        # Read: element i of d_arrI32 / d_arrF32
                        L.append("  float vf_cellf(int i) const;")
                    if "arrobj" in self.features:
                        L.append("  KB_%d d_arrObj[2];" % f)
                if c == "KB":
                    L.append("  int bst;")
                if c in ("K0", "KB"):
                    L.append("  int vf_item(int i) const;")             # Read: what  int &operator [](K)  refers to
                if c in ("K0", "KB"):
                    L.append("public:")
                    L.append("  virtual ~%s_%d();" % (c, f))
                    L.append("#ifndef CPPPARSER")
                    if c == "K0":
                        # the payload has move semantics: a heap-allocated string owned by the K0 part
                        L.append("  K0_%d(const vfrt::Raw &, int s, int tg);" % f)
                        L.append("  K0_%d(const K0_%d &) = default;" % (f, f))
                        L.append("  K0_%d(K0_%d &&) = default;" % (f, f))
                        L.append("  void vf_settag(long tg);")
                        L.append("  std::string vf_tagtext;")
                    else:
                        L.append("  KB_%d(const vfrt::Raw &, int s);" % f)
                        if "arrobj" in self.features:
                            L.append("  KB_%d();" % f)          # elements of K0's object array
                    L.append("  int vf_items[4];")
                    L.append("  void vf_init();")
                    L.append("#endif")
                L.append("};")
            free = byc["-"]
            if free:
                if not promiscuous:
                    L.append("BEGIN_PUBLISH")
                for fn in free:
                    L.append(declaration(fn))
                if not promiscuous:
                    L.append("END_PUBLISH")
            L.append("")
        L.append("#endif")
        return "\n".join(L) + "\n"

    # -- implementation -------------------------------------------------------------------
    def impl(self):
        L = ['#include "wrapc_rt.h"', '#include "lib%d.h"' % self.index, ""]
        for f in self.fams:
            L.append("K0_%d::K0_%d(const vfrt::Raw &, int s, int tg) { vf_init(); st = s; vf_settag(tg); }" % (f, f))
            L.append("int K0_%d::vf_tag() const { return (int)vfrt::tagnum(vf_tagtext); }" % f)
            L.append("void K0_%d::vf_settag(long tg) { vf_tagtext = vfrt::mktag(tg); }" % f)
            L.append("K0_%d::~K0_%d() {}" % (f, f))
            init = ["st = 0;", "vf_settag(0);", "for (int i = 0; i < 4; ++i) vf_items[i] = 0;"]
            for k in DATA_KINDS:
                init.append("d_%s = %s;" % (k, DATA_INIT.get(k, "1")))
            if "arr" in self.features:
                init.append("d_arrI32[0] = 1; d_arrI32[1] = 2; d_arrI32[2] = 3; d_arrF32[0] = 1.5f; d_arrF32[1] = 2.5f;")
                L.append("int K0_%d::vf_celli(int i) const { return d_arrI32[i]; }" % f)
                L.append("float K0_%d::vf_cellf(int i) const { return d_arrF32[i]; }" % f)
            L.append("void K0_%d::vf_init() { %s }" % (f, " ".join(init)))
            L.append("int K0_%d::vf_item(int i) const { return vf_items[i & 3]; }" % f)
            L.append("KB_%d::KB_%d(const vfrt::Raw &, int s) { vf_init(); bst = s; }" % (f, f))
            if "arrobj" in self.features:
                L.append("KB_%d::KB_%d() { vf_init(); bst = 7; }" % (f, f))
            L.append("KB_%d::~KB_%d() {}" % (f, f))
            L.append("void KB_%d::vf_init() { bst = 0; for (int i = 0; i < 4; ++i) vf_items[i] = 0; }" % f)
            L.append("int KB_%d::vf_item(int i) const { return vf_items[i & 3]; }" % f)
            for c in CLASSES:
                L.append('extern "C" void vf_destroy_%s_%d(void *p) { delete (%s_%d *)p; }' % (c, f, c, f))
            L.append("")
        for fn in self.fns:
            d = definition(fn)
            if d:
                L.append(d)
        return "\n".join(L) + "\n"

    # -- native driver --------------------------------------------------------------------
    def native(self):
        L = ['#include "wrapc_rt.h"', '#include "lib%d.h"' % self.index, '#include "wrapc_native.h"', ""]
        for f in self.fams:
            L.append("static K0_%d *k0_%d(Slot &s) { switch (s.cls) { case 1: return (K0_%d *)s.p; case 2: return (K1_%d *)s.p; "
                     "case 3: return (K2_%d *)s.p; case 5: return (Mix_%d *)s.p; case 6: return (K3_%d *)s.p; } return 0; }"
                     % ((f,) * 7))
            L.append("static KB_%d *kb_%d(Slot &s) { switch (s.cls) { case 4: return (KB_%d *)s.p; case 5: return (Mix_%d *)s.p; } return 0; }"
                     % ((f,) * 4))
            L.append("static void post_%d(X &x) { x.post_begin(); for (size_t i = 1; i < x.slots.size(); ++i) { Slot &s = x.slots[i]; "
                     "if (!s.live) { x.post_dead(); continue; } K0_%d *a = k0_%d(s); KB_%d *b = kb_%d(s); x.post_live(a ? a->st : 0, b ? b->bst : 0, a ? a->vf_tag() : 0); } x.post_end(); }"
                     % ((f,) * 5))
            L.append("static int find_%d(X &x, const K0_%d *p) { if (!p) return 0; for (size_t i = 1; i < x.slots.size(); ++i) "
                     "if (x.slots[i].live && k0_%d(x.slots[i]) == p) return (int)i; return -1; }" % (f, f, f))
            cases = " ".join("case %d: delete (%s_%d *)s.p; break;" % (CLS_SEQ.index(c), c, f) for c in CLASSES)
            L.append("static void del_%d(Slot &s) { switch (s.cls) { %s } s.live = false; }" % (f, cases))
            cases = " ".join("case %d: n.p = new %s_%d(*(%s_%d *)s.p); break;" % (CLS_SEQ.index(c), c, f, c, f) for c in CLASSES)
            L.append("static void copy_%d(X &x, Slot &s) { Slot n; n.cls = s.cls; n.live = true; n.p = 0; switch (s.cls) { %s } x.slots.push_back(n); }" % (f, cases))
            # data members: direct access
            gl, sl = [], []
            for k in data_kinds(self.features):
                i = ALL_DATA_KINDS.index(k)
                if k == "arrObj":
                    gl.append("case %d: x.ret_i(a->d_arrObj[0].bst); break;" % i)
                elif k == "arrI32":
                    sl.append("case %d: { int v[3] = {(int)x.I(1), (int)x.I(2), (int)x.I(3)}; std::copy(v, v + 3, a->d_arrI32); } break;" % i)
                elif k == "arrF32":
                    sl.append("case %d: { float v[2] = {(float)x.F(1), (float)x.F(2)}; std::copy(v, v + 2, a->d_arrF32); } break;" % i)
                else:
                    gl.append("case %d: %s break;" % (i, native_ret(k, "a->d_%s" % k, f, "x")))
                    sl.append("case %d: a->d_%s = %s; break;" % (i, k, native_arg(k, 2, f)))
            L.append("static void getd_%d(X &x, Slot &s, int kind) { K0_%d *a = k0_%d(s); switch (kind) { %s } }" % (f, f, f, " ".join(gl)))
            L.append("static void setd_%d(X &x, Slot &s, int kind) { K0_%d *a = k0_%d(s); switch (kind) { %s } x.ret_void(); }" % (f, f, f, " ".join(sl)))
            L.append("static void up_%d(X &x, Slot &s, int base) { if (base == 4) x.ret_i(kb_%d(s)->bst); else x.ret_i(k0_%d(s)->st); }" % (f, f, f))
            L.append("")
        tab = []
        for fn in self.fns:
            s = fn.sig
            if s["fk"] in ("getter", "setter"):
                continue
            for k in range(s["nd"] + 1):
                L.append(native_callsite(fn, k))
                tab.append("{%d, %d, cs_%d_%d}" % (fn.gid, k, fn.gid, k))
        L.append("static const Entry TAB[] = { %s, {0, 0, 0} };" % ", ".join(tab))
        fam = ["{%d, post_%d, del_%d, copy_%d, getd_%d, setd_%d, up_%d}" % ((f,) * 7) for f in self.fams]
        L.append("static const Fam FAMS[] = { %s, {-1, 0, 0, 0, 0, 0, 0} };" % ", ".join(fam))
        L.append("int main(int argc, char **argv) { return vf_native_main(argc, argv, TAB, FAMS); }")
        return "\n".join(L) + "\n"


def native_arg(k, i, fam):
    """C++ expression for script argument i (1-based) of kind k in a native call site"""
    j = i - 1
    if k in ("i8", "i16", "i32", "i64", "long"):
        return "(%s)x.I(%d)" % (CTYPE[k], j)
    if k in ("u8", "u16", "u32", "u64", "ulong"):
        return "(%s)x.U(%d)" % (CTYPE[k], j)
    if k == "f32":
        return "(float)x.F(%d)" % j
    if k == "f64":
        return "x.F(%d)" % j
    if k == "bool":
        return "(x.I(%d) != 0)" % j
    if k == "enum":
        return "(En)x.U(%d)" % j
    if k == "enumC":
        return "(EnC)x.I(%d)" % j
    if k == "enumLL":
        return "(EnL)x.I(%d)" % j
    if k == "strPtr":
        return "&x.S(%d)" % j
    if k == "cstr":
        return "x.S(%d).c_str()" % j
    if k == "string":
        return "x.S(%d)" % j
    if k == "objPtr":
        return "(x.I(%d) ? k0_%d(x.slots[x.I(%d)]) : (K0_%d *)0)" % (j, fam, j, fam)
    return "*k0_%d(x.slots[x.I(%d)])" % (fam, j)


def native_ret(k, expr, fam, x):
    if k in ("i8", "i16", "i32", "i64", "long", "enumC", "enumLL"):
        return "%s.ret_i((long long)(%s));" % (x, expr)
    if k in ("u8", "u16", "u32", "u64", "ulong", "enum"):
        return "%s.ret_u((unsigned long long)(%s));" % (x, expr)
    if k in ("f32", "f64"):
        return "%s.ret_f((double)(%s));" % (x, expr)
    if k == "bool":
        return "%s.ret_i((%s) ? 1 : 0);" % (x, expr)
    if k == "cstr":
        return "%s.ret_s(std::string(%s));" % (x, expr)
    if k == "string":
        return "%s.ret_s(%s);" % (x, expr)
    if k == "objPtr":
        return "%s.ret_i(find_%d(%s, %s));" % (x, fam, x, expr)
    if k in ("objRef", "constObjRef"):
        return "%s.ret_i(find_%d(%s, &(%s)));" % (x, fam, x, expr)
    if k == "objVal":
        return "{ Slot n; n.cls = 1; n.live = true; n.p = new K0_%d(%s); %s.slots.push_back(n); %s.ret_i((long long)%s.slots.size() - 1); }" % (fam, expr, x, x, x)
    raise ValueError(k)


def native_callsite(fn, k):
    s = fn.sig
    f = fn.fam
    n = len(s["ps"]) - k
    args = ", ".join(native_arg(s["ps"][i], i + 1, f) for i in range(n))
    head = "static void cs_%d_%d(X &x) { " % (fn.gid, k)
    fk = s["fk"]
    if fk == "ctor":
        return head + "Slot n; n.cls = %d; n.live = true; n.p = new %s(%s); x.slots.push_back(n); x.ret_void(); }" % (
            CLS_SEQ.index(s["cls"]), fn.cxxcls, args)
    if has_this(s):
        c = s["cls"]
        cq = "const " if const_this(s) else ""
        if c == "K0":
            self_ = "%sK0_%d *self = k0_%d(x.self());" % (cq, f, f)
        elif c == "KB":
            self_ = "%sKB_%d *self = kb_%d(x.self());" % (cq, f, f)
        else:
            self_ = "%s%s *self = (%s *)x.self().p;" % (cq, fn.cxxcls, fn.cxxcls)
        if fk == "opIndex":
            call = "(*self)[%s]" % args
        elif fk == "opCall":
            call = "(*self)(%s)" % args
        elif fk == "opAsg":
            call = "((*self) %s %s)" % (ASG_TOKEN[s["ret"]], args)
        elif fk == "opIndexRef":
            a = [native_arg(s["ps"][i], i + 1, f) for i in range(2)]
            call = "(*self)[%s] = %s" % (a[0], a[1])
        elif fk == "opEq":
            call = "((*self) == %s)" % args
        elif fk in ("opInc", "opDec", "opBin"):
            call = "self->operator %s(%s)" % ({"opInc": "++", "opDec": "--", "opBin": "+"}[fk], args)
        elif fk == "opCast":
            call = "((%s)(*self))" % rtype(fn)
        else:
            call = "self->%s(%s)" % (fn.cname, args)
    else:
        self_ = ""
        call = "%s(%s)" % (("::" + fn.cname) if fn.cls == "-" else fn.scoped, args)
    r = s["ret"]
    if fk in ("opAsg", "opInc", "opDec") and r == "objRef":
        tail = "x.ret_i(find_%d(x, (K0_%d *)&%s));" % (f, f, call)
    elif r == "void":
        tail = "%s; x.ret_void();" % call
    else:
        tail = native_ret(r, call, f, "x")
    return head + self_ + " " + tail + " }"


# ---------------------------------------------------------------------------------------------
def compatible(a, b):
    """may signatures a and b be declared in the same scope of one family?  (mirror of CppLibCalls!Compatible
    for the names the renderer shares between libraries: constructors and operators)"""
    ga, gb = cpp_name_group(a), cpp_name_group(b)
    if ga is None or ga != gb:
        return True
    if a["fk"] == "opCast":
        return False
    return not (call_sigs(a) & call_sigs(b))


class Packer:
    """assigns libraries to class families (first fit) and families to batches"""

    def __init__(self, nbatches, fam_cap=60):
        self.nb = nbatches
        self.fam_cap = fam_cap
        self.fams = []      # per family: dict(sigs={key: sig}, fns={(key, cname): Fn}, libs=set())
        self.gid = 0
        self.libno = 0
        self.libs = {}      # lib key -> (fam, {sig key: Fn})

    def add_lib(self, lib):
        key = tuple(sorted(sig_key(s) for s in lib))
        if key in self.libs:
            return self.libs[key]
        self.libno += 1
        sigs = {sig_key(s): s for s in lib}
        feats = lib_features(lib)
        for fi, fam in enumerate(self.fams):
            if fam["features"] != feats or len(fam["sigs"]) + len(sigs) > self.fam_cap:
                continue
            others = [s for k, s in fam["sigs"].items() if k not in sigs]
            if all(compatible(a, b) for a in sigs.values() for b in others):
                break
        else:
            fi = len(self.fams)
            base = {sig_key(base_ctor_sig(c)): base_ctor_sig(c) for c in CLASSES}
            self.fams.append(dict(sigs=dict(base), fns={}, libs=set(), features=feats))
            fam = self.fams[fi]
            for k, s in base.items():
                self.gid += 1
                fam["fns"][(k, "%s_%d" % (s["cls"], fi))] = Fn(self.gid, fi, s, "%s_%d" % (s["cls"], fi))
        fam = self.fams[fi]
        out = {}
        for k, s in sigs.items():
            fk = s["fk"]
            if fk == "ctor":
                cname = "%s_%d" % (s["cls"], fi)
            elif fk in ("getter", "setter"):
                cname = "d_" + (s["ret"] if fk == "getter" else s["ps"][0])
            elif fk in ("opIndex", "opIndexRef"):
                cname = "operator []"
            elif fk == "opCall":
                cname = "operator ()"
            elif fk == "opAsg":
                cname = "operator " + ASG_TOKEN[s["ret"]]
            elif fk == "opEq":
                cname = "operator =="
            elif fk in ("opInc", "opDec", "opBin"):
                cname = {"opInc": "operator ++", "opDec": "operator --", "opBin": "operator +"}[fk]
            elif fk == "opCast":
                cname = "operator " + s["ret"]
            elif s["name"]:
                # (the class is part of the name: an override of a virtual K0 function injected into K1 / Mix / K3 must
                # not meet a function of the same name that the library declares there)
                cname = "ov%d_%d%s" % (s["name"], self.libno, "" if s["cls"] == "-" else "_" + s["cls"])
            elif s["cls"] == "-":
                cname = "f%d_%d" % (sig_id(s), fi)       # namespace-scope names are shared by all families
            else:
                cname = "f%d" % sig_id(s)
            fkey = (k, cname)
            if fkey not in fam["fns"]:
                self.gid += 1
                fam["fns"][fkey] = Fn(self.gid, fi, s, cname)
            fam["sigs"][k] = s
            out[k] = fam["fns"][fkey]
        self.libs[key] = (fi, out)
        return self.libs[key]

    def batches(self):
        # families without special features are dealt to nb batches of about the same number of functions;
        # every other feature set gets a batch of its own
        bs = [Batch(i) for i in range(self.nb)]
        order = sorted(range(len(self.fams)), key=lambda f: -len(self.fams[f]["fns"]))
        special = {}
        for f in order:
            feats = self.fams[f]["features"]
            if feats:
                if feats not in special:
                    special[feats] = Batch(self.nb + len(special))
                    special[feats].features = feats
                b = special[feats]
            else:
                b = min(bs, key=lambda x: len(x.fns))
            b.fams.append(f)
            b.fns.extend(sorted(self.fams[f]["fns"].values(), key=lambda fn: fn.gid))
        bs += [special[k] for k in sorted(special, key=sorted)]
        for i, b in enumerate(x for x in bs if x.fams):
            b.fams.sort()
        return [b for b in bs if b.fams]


# ---------------------------------------------------------------------------------------------
def step_sig(rec, st):
    """signature of a dumped step: index into rec["lib"], 0 = the constructor K(int) of st["cls"]"""
    return rec["lib"][st["s"] - 1] if st["s"] else base_ctor_sig(st["cls"])


def resolve(rec, bid, fam, fnmap):
    """one dumped behaviour -> executable steps + expected observations (canonical values)"""
    steps = []
    slotcls = {}
    for i, st in enumerate(rec["script"]):
        op = st["op"]
        exp_post = [p if p else None for p in st["post"]]
        if op in ("new", "copy"):
            slotcls[st["obj"]] = st["cls"]
        if op in ("new", "call"):
            s = step_sig(rec, st)
            fn = fnmap[sig_key(s)]
            kinds = s["ps"][:len(st["args"])]
            args = [val(k, a) for k, a in zip(kinds, st["args"])]
            d = dict(op=op, gid=fn.gid, k=st["k"], args=args, kinds=kinds, fk=s["fk"], ret_kind=s["ret"])
            if op == "new":
                d.update(cls=st["cls"], exp_ret=None, slot=st["obj"])
            else:
                d["this"] = st["this"]
                # an overridden virtual function is reached through the base class's wrapper (with the database's
                # upcast) or through the wrapper of the object's own class: alternate
                # (a class with one non-virtual base does not re-export an overridden virtual function - it is
                # "inherited properly" through the base wrapper, interrogateBuilder.cxx define_method - so K1 has no
                # wrapper of its own for it; Mix and K3 have)
                if is_overridden(fn) and slotcls.get(st["this"]) in ("Mix", "K3") and (bid + i) % 2 == 1:
                    d["via"] = slotcls[st["this"]]
                r = s["ret"]
                d["exp_ret"] = st["this"] if s["fk"] == "opAsg" and r == "objRef" else st["ret"] if r in OBJ_KINDS else val(r, st["ret"])
                if s["fk"] == "setter":
                    d["rb"] = val(s["ps"][0], st["rb"])
                    d["data_kind"] = s["ps"][0]
                if s["fk"] == "opIndexRef":
                    d["rb"] = st["rb"]
                    d["item"] = st["item"]
                if s["fk"] == "getter":
                    d["data_kind"] = s["ret"]
            steps.append((d, exp_post))
        elif op == "copy":
            steps.append((dict(op="copy", frm=st["from"], slot=st["obj"], cls=st["cls"], exp_ret=None), exp_post))
        elif op == "upcast":
            steps.append((dict(op="upcast", obj=st["obj"], to=st["to"], exp_ret=st["exp"]), exp_post))
        elif op == "del":
            steps.append((dict(op="del", obj=st["obj"], exp_ret=None), exp_post))
    # WrapC!Required, per generated function: [k, number of wrapper parameters, this first, optional flags]
    req = {}
    for r in rec["req"]:
        fn = fnmap[sig_key(rec["lib"][r["s"] - 1])]
        req.setdefault(fn.gid, []).append([r["k"], r["np"], r["this"], r["opt"]])
    return dict(b=bid, fam=fam, steps=[s for s, _ in steps], expect=[dict(ret=s["exp_ret"], post=p) for s, p in steps], req=req)


def native_script(behaviours):
    """text form of the resolved behaviours for the native driver (see harness/wrapc_native.h)"""
    L = []
    for b in behaviours:
        L.append("B %d %d" % (b["b"], b["fam"]))
        for st in b["steps"]:
            op = st["op"]
            if op in ("new", "call"):
                toks = []
                for k, a in zip(st["kinds"], st["args"]):
                    if k in STR_KINDS:
                        toks.append(str(TABLE.index(a)))
                    elif k in ("arrI32", "arrF32"):
                        toks.append(" ".join(str(x) for x in a))
                    else:
                        toks.append(str(a))
                if st["fk"] == "getter":
                    L.append("G %d %d" % (st["this"], ALL_DATA_KINDS.index(st["data_kind"])))
                elif st["fk"] == "setter":
                    L.append("S %d %d %s" % (st["this"], ALL_DATA_KINDS.index(st["data_kind"]), toks[0]))
                else:
                    L.append("C %d %d %d %s" % (st.get("this", 0), st["gid"], st["k"], " ".join(toks)))
            elif op == "copy":
                L.append("Y %d" % st["frm"])
            elif op == "upcast":
                L.append("U %d %d" % (st["obj"], CLS_SEQ.index(st["to"])))
            elif op == "del":
                L.append("D %d" % st["obj"])
        L.append("E")
    return "\n".join(L) + "\n"
