#!/usr/bin/env python3
"""C17: read one interrogate database back through the C query interface of libinterrogatedb.

usage: c17_dbnames.py <libinterrogatedb.so> <database.in (absolute)>
prints {"error": bool, "types": [names of the global types], "globals": [names of the global elements],
        "functions": [names of the global functions]}  -- with multiplicity, so "exported exactly once" is visible.
One process per database (the library keeps one process-wide database)."""
import ctypes, json, sys

lib = ctypes.CDLL(sys.argv[1])
lib.interrogate_request_database.argtypes = [ctypes.c_char_p]
for f in ("interrogate_type_name", "interrogate_element_name", "interrogate_function_name"):
    getattr(lib, f).restype = ctypes.c_char_p
    getattr(lib, f).argtypes = [ctypes.c_int]
lib.interrogate_error_flag.restype = ctypes.c_bool
lib.interrogate_request_database(sys.argv[2].encode())


def names(count, get, name):
    out = []
    for i in range(getattr(lib, count)()):
        s = getattr(lib, name)(getattr(lib, get)(i))
        out.append(s.decode("latin-1") if s else "")
    return out


res = dict(types=names("interrogate_number_of_global_types", "interrogate_get_global_type", "interrogate_type_name"),
           globals=names("interrogate_number_of_globals", "interrogate_get_global", "interrogate_element_name"),
           functions=names("interrogate_number_of_global_functions", "interrogate_get_global_function",
                           "interrogate_function_name"))
res["error"] = bool(lib.interrogate_error_flag())
print(json.dumps(res))
