#!/usr/bin/env python3
"""Development driver (not registered): run only the non-type-parameter part of C06 (vf/checks/_c06_templnt.py).
    harness/c06_templnt_dev.py [quick|thorough] [cap_programs cap_queries]
Evidence and replays go to $VERIF_OUT (default: a scratch directory, so /verif/evidence is never overwritten);
VERIF_REPO / VERIF_BUILD select the tree under test as tools/mutant.sh does.  VERIF_STATS=1 prints triage histograms."""
import os, shutil, sys, time
os.environ.setdefault("VERIF_OUT", "/tmp/templnt/out")
sys.path.insert(0, os.path.dirname(os.path.dirname(os.path.abspath(__file__))))
from vf.common import Ctx, MachineryError, EXIT_MACHINERY
from vf import build
from vf.checks._c06_templnt import templ_nontype


def main():
    tier = sys.argv[1] if len(sys.argv) > 1 else "quick"
    caps = (int(sys.argv[2]), int(sys.argv[3])) if len(sys.argv) > 3 else None
    ctx = Ctx("C06", tier)
    try:
        build.ensure("hooked")
        t0 = time.time()
        n = templ_nontype(ctx, ctx.tmp, caps)
        ctx.cov["traces_validated_against_impl"] += n
        ctx.cov["evaluations"] += n
        ctx.cov["distinct_nontrivial"] = ctx.notes.get("templnt_distinct_results", 0)
        ctx.cov["rule"] = "TemplNonType!Norm"
        print("templ_nontype: %d implementation cases, %.0fs (TLC %s)" % (
            n, time.time() - t0, ", ".join("%s %.0fs %d states" % (r["cfg"], r["wall_s"], r["generated"]) for r in ctx.cov["tlc_runs"])))
        for k in sorted(ctx.notes):
            print("  note %s = %s" % (k, ctx.notes[k]))
        return ctx.finish()
    except MachineryError as e:
        print("MACHINERY-ERROR C06/templnt: %s" % e, file=sys.stderr)
        if not os.environ.get("VERIF_KEEP_TMP"):
            shutil.rmtree(ctx.tmp, ignore_errors=True)
        return EXIT_MACHINERY


if __name__ == "__main__":
    sys.exit(main())
