// C17 harness: runs Filename::standardize / make_absolute / make_canonical on every path read
// from stdin (one per line; the empty line is not a path) and prints, per line,
//   <text>\t<standardize>\t<make_absolute>\t<make_canonical result>\t<make_canonical returned>
// make_absolute / make_canonical use the process's working directory, which the caller chooses.
// Modes:  path_tool std   -> only standardize (purely lexical, no file system access)
//         path_tool all   -> all three
#include "filename.h"

#include <iostream>
#include <string>

int main(int argc, char **argv) {
  std::string mode = argc > 1 ? argv[1] : "all";
  std::string line;
  while (std::getline(std::cin, line)) {
    if (line.empty()) {
      continue;
    }
    Filename s(line);
    s.standardize();
    std::cout << line << '\t' << s.get_fullpath();
    if (mode == "all") {
      Filename a(line);
      a.make_absolute();
      Filename c(line);
      bool ok = c.make_canonical();
      std::cout << '\t' << a.get_fullpath() << '\t' << c.get_fullpath() << '\t' << (ok ? 1 : 0);
      // idempotence on the real class
      Filename s2(s);
      if (!s2.empty()) {
        s2.standardize();
      }
      Filename c2(c);
      c2.make_canonical();
      std::cout << '\t' << s2.get_fullpath() << '\t' << c2.get_fullpath();
    }
    std::cout << '\n';
  }
  return 0;
}
