// C12 harness header: comments and names that stress the length-prefixed string encoding.
__begin_publish
/* 7 */
int seven();
//
int empty_comment();
/**
 * 12 3
 * 0
 */
int digits_in_comment(int _7 = 7, const char *s = "x y\n\"z\"");
// cafÃ© ÿ latin bytes
int non_ascii();
#define EMPTYDEF
#define SPACES   a   b   
#define QUOTE "\""
#define MULTI 1 + \
  2
__end_publish
struct S { __published: int a; };
