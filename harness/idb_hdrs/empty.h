// C12/C20 harness header: nothing is published.
