// C12/C20 harness header: every record kind of the database (functions, wrappers, types, manifests,
// elements, make_seqs), enums with comments, arrays, typedefs, nested types, inheritance, properties.
__begin_publish
#define SHAPES_VERSION 42
#define SHAPES_NAME "a b \" c"
#define SHAPES_NEG (-7)
__end_publish

/**
 * A base class.  The comment has "quotes", a 'tick',
 *   indentation and a trailing blank line.
 *
 */
class Base {
__published:
  Base();
  virtual ~Base();
  // is it?
  virtual int kind() const;
  int get_num_items() const;
  int get_item(int n) const;
  __make_seq(get_items, get_num_items, get_item);
  void set_value(int v);
  int get_value() const;
  __make_property(value, get_value, set_value);
  __make_seq_property(items, get_num_items, get_item);
public:
  int hidden;
};

enum Color {
  // the first colour
  C_red,
  C_green = 5,  /* five */
  C_blue = -3,
};

enum class Scoped : unsigned char { S_a = 1, S_b = 200 };

class Derived final : public Base {
__published:
  Derived(int a, float b = 1.5f);
  Derived(const Derived &copy);
  virtual int kind() const;
  static Derived *make();
  Color color;
  int table[4];
  typedef int Index;
  Index lookup(const char *name, Index fallback = 0) const;
  operator bool () const;
  Derived operator - () const;
  class Inner {
  __published:
    int x;
    union U { int i; float f; };
  };
};

__begin_publish
struct Forward;
Forward *get_forward();
int global_counter;
const double global_ratio = 0.25;
int free_function(Derived &d, const Base *b, unsigned long long big, short s, signed char c);
__end_publish
