// idbm_tool — driver for libinterrogatedb used by the C13 / C11 checks.
//
//   idbm_tool batch <script> <out>
//
// The script is a sequence of cases; every case is executed in a freshly forked child process
// (the database is a process-wide singleton), the parent never touches the library.
//
//   case <id>
//   reqdb <path>                 interrogate_request_database(path)
//   reqmod <path> <count>        interrogate_request_module(def{first_index=1,next_index=1+count})
//   peek                         private scalars, WITHOUT triggering check_latest()
//   lookup <kind> <name>         tn|tsn|ttn|mn|en|esn  (public by-name lookups; trigger the lazy load)
//   proj                         index-free projection of the whole database (names only)
//   raw                          every record BY RAW INDEX (+ enumeration vectors)
//   end
//
// Output: one JSON object per step and line, {"case":id,"k":step,...}; after each case the parent
// appends {"case":id,"exit":status,"sig":signal}.
//
// Built with -fno-access-control: the record maps are read directly, which is what makes a dump
// "by raw index" possible (the public text dump resolves indices to names and hides dangling ones).
#include "interrogateDatabase.h"
#include "interrogate_request.h"
#include "interrogate_interface.h"
#include "interrogateType.h"
#include "interrogateFunction.h"
#include "interrogateFunctionWrapper.h"
#include "interrogateElement.h"
#include "interrogateManifest.h"
#include "interrogateMakeSeq.h"

#include <cstdio>
#include <cstdlib>
#include <cstring>
#include <fstream>
#include <sstream>
#include <string>
#include <vector>
#include <map>
#include <algorithm>
#include <sys/wait.h>
#include <unistd.h>

using std::string;
typedef InterrogateDatabase DB;

static string js(const string &s) {
  string r = "\"";
  for (unsigned char c : s) {
    if (c == '"' || c == '\\') { r += '\\'; r += (char)c; }
    else if (c < 0x20 || c >= 0x7f) { char b[8]; snprintf(b, sizeof b, "\\u%04x", c); r += b; }
    else r += (char)c;
  }
  return r + "\"";
}
static string libname(const InterrogateComponent &c) {
  const char *n = c.get_library_name();
  return n ? string(n) : string();
}
template<class V> static string ivec(const V &v) {
  std::ostringstream o; o << "[";
  bool first = true;
  for (int x : v) { if (!first) o << ","; first = false; o << x; }
  o << "]"; return o.str();
}

// ---------------------------------------------------------------- raw dump
static void dump_raw(DB *db, std::ostream &o) {
  o << "\"next\":" << db->_next_index << ",\"fresh\":" << db->_lookups_fresh
    << ",\"err\":" << (db->_error_flag ? 1 : 0);
  o << ",\"w\":[";
  bool f = true;
  for (auto &p : db->_wrapper_map) {
    const InterrogateFunctionWrapper &w = p.second;
    if (!f) o << ","; f = false;
    o << "{\"i\":" << p.first << ",\"n\":" << js(w.get_name()) << ",\"un\":" << js(w._unique_name)
      << ",\"lib\":" << js(libname(w)) << ",\"fl\":" << w._flags << ",\"fn\":" << w._function
      << ",\"ret\":" << w._return_type << ",\"rvd\":" << w._return_value_destructor << ",\"ps\":[";
    bool g = true;
    for (auto &pa : w._parameters) { if (!g) o << ","; g = false; o << pa._type; }
    o << "],\"pf\":[";
    g = true;
    for (auto &pa : w._parameters) { if (!g) o << ","; g = false; o << pa._parameter_flags; }
    o << "]}";
  }
  o << "],\"f\":[";
  f = true;
  for (auto &p : db->_function_map) {
    if (!f) o << ","; f = false;
    if (p.second == nullptr) { o << "{\"i\":" << p.first << ",\"null\":1}"; continue; }
    const InterrogateFunction &fn = *p.second;
    o << "{\"i\":" << p.first << ",\"n\":" << js(fn.get_name()) << ",\"sn\":" << js(fn._scoped_name)
      << ",\"lib\":" << js(libname(fn)) << ",\"fl\":" << fn._flags << ",\"cls\":" << fn._class
      << ",\"cw\":" << ivec(fn._c_wrappers) << ",\"pw\":" << ivec(fn._python_wrappers) << "}";
  }
  o << "],\"t\":[";
  f = true;
  for (auto &p : db->_type_map) {
    const InterrogateType &t = p.second;
    if (!f) o << ","; f = false;
    o << "{\"i\":" << p.first << ",\"n\":" << js(t.get_name()) << ",\"sn\":" << js(t._scoped_name)
      << ",\"tn\":" << js(t._true_name) << ",\"lib\":" << js(libname(t)) << ",\"fl\":" << t._flags
      << ",\"fd\":" << ((t._flags & InterrogateType::F_fully_defined) ? 1 : 0)
      << ",\"gl\":" << ((t._flags & InterrogateType::F_global) ? 1 : 0)
      << ",\"at\":" << (int)t._atomic_token << ",\"asz\":" << t._array_size
      << ",\"outer\":" << t._outer_class << ",\"wrapped\":" << t._wrapped_type
      << ",\"ctors\":" << ivec(t._constructors) << ",\"dtor\":" << t._destructor
      << ",\"elems\":" << ivec(t._elements) << ",\"methods\":" << ivec(t._methods)
      << ",\"mseqs\":" << ivec(t._make_seqs) << ",\"casts\":" << ivec(t._casts) << ",\"derivs\":[";
    bool g = true;
    for (auto &d : t._derivations) {
      if (!g) o << ","; g = false;
      o << "{\"fl\":" << d._flags << ",\"base\":" << d._base << ",\"up\":" << d._upcast << ",\"down\":" << d._downcast << "}";
    }
    o << "],\"nested\":" << ivec(t._nested_types) << ",\"nev\":" << t._enum_values.size() << "}";
  }
  o << "],\"m\":[";
  f = true;
  for (auto &p : db->_manifest_map) {
    const InterrogateManifest &m = p.second;
    if (!f) o << ","; f = false;
    o << "{\"i\":" << p.first << ",\"n\":" << js(m.get_name()) << ",\"lib\":" << js(libname(m))
      << ",\"fl\":" << m._flags << ",\"type\":" << m._type << ",\"getter\":" << m._getter << "}";
  }
  o << "],\"e\":[";
  f = true;
  for (auto &p : db->_element_map) {
    const InterrogateElement &e = p.second;
    if (!f) o << ","; f = false;
    o << "{\"i\":" << p.first << ",\"n\":" << js(e.get_name()) << ",\"sn\":" << js(e._scoped_name)
      << ",\"lib\":" << js(libname(e)) << ",\"fl\":" << e._flags << ",\"gl\":" << ((e._flags & InterrogateElement::F_global) ? 1 : 0)
      << ",\"type\":" << e._type << ",\"getter\":" << e._getter << ",\"setter\":" << e._setter
      << ",\"has\":" << e._has_function << ",\"clear\":" << e._clear_function << ",\"del\":" << e._del_function
      << ",\"ins\":" << e._insert_function << ",\"getkey\":" << e._getkey_function << ",\"len\":" << e._length_function << "}";
  }
  o << "],\"s\":[";
  f = true;
  for (auto &p : db->_make_seq_map) {
    const InterrogateMakeSeq &s = p.second;
    if (!f) o << ","; f = false;
    o << "{\"i\":" << p.first << ",\"n\":" << js(s.get_name()) << ",\"sn\":" << js(s._scoped_name)
      << ",\"lib\":" << js(libname(s)) << ",\"lenf\":" << s._length_getter << ",\"elemf\":" << s._element_getter << "}";
  }
  o << "],\"allT\":" << ivec(db->_all_types) << ",\"globT\":" << ivec(db->_global_types)
    << ",\"allF\":" << ivec(db->_all_functions) << ",\"globF\":" << ivec(db->_global_functions)
    << ",\"globM\":" << ivec(db->_global_manifests) << ",\"globE\":" << ivec(db->_global_elements);
  o << ",\"mods\":[";
  f = true;
  for (auto *d : db->_modules) {
    if (!f) o << ","; f = false;
    o << "[" << d->first_index << "," << d->next_index << "]";
  }
  o << "]";
}

// ---------------------------------------------------------------- projection (names, never indices)
struct Proj {
  DB *db;
  string tkey(int i) {
    if (i == 0) return "";
    auto it = db->_type_map.find(i);
    if (it == db->_type_map.end()) return "?t" + std::to_string(i);
    const InterrogateType &t = it->second;
    if (!t._true_name.empty()) return t._true_name;
    return "#" + libname(t) + "#" + t.get_name();
  }
  string fkey(int i) {
    if (i == 0) return "";
    auto it = db->_function_map.find(i);
    if (it == db->_function_map.end() || it->second == nullptr) return "?f" + std::to_string(i);
    return libname(*it->second) + "|" + it->second->_scoped_name;
  }
  string ekey(int i) {
    if (i == 0) return "";
    auto it = db->_element_map.find(i);
    if (it == db->_element_map.end()) return "?e" + std::to_string(i);
    return libname(it->second) + "|" + it->second._scoped_name;
  }
  string skey(int i) {
    if (i == 0) return "";
    auto it = db->_make_seq_map.find(i);
    if (it == db->_make_seq_map.end()) return "?s" + std::to_string(i);
    return libname(it->second) + "|" + it->second._scoped_name;
  }
  string mkey(int i) {
    if (i == 0) return "";
    auto it = db->_manifest_map.find(i);
    if (it == db->_manifest_map.end()) return "?m" + std::to_string(i);
    return libname(it->second) + "|" + it->second.get_name();
  }
  template<class V, class K> string kvec(const V &v, K k) {
    string r = "[";
    bool f = true;
    for (int x : v) { if (!f) r += ","; f = false; r += js((this->*k)(x)); }
    return r + "]";
  }
  string wrec(int i) {
    auto it = db->_wrapper_map.find(i);
    if (it == db->_wrapper_map.end()) return js("?w" + std::to_string(i));
    const InterrogateFunctionWrapper &w = it->second;
    string r = "{\"n\":" + js(w.get_name()) + ",\"lib\":" + js(libname(w)) + ",\"fn\":" + js(fkey(w._function))
      + ",\"ret\":" + js(tkey(w._return_type)) + ",\"rvd\":" + js(fkey(w._return_value_destructor)) + ",\"ps\":[";
    bool f = true;
    for (auto &p : w._parameters) { if (!f) r += ","; f = false; r += js(tkey(p._type)); }
    return r + "]}";
  }
  // canonical form: every top-level array is sorted bytewise, fixed field order, no spaces; the
  // Python side (vf/checks/_idbm.py: canon_proj) renders the spec's projection to the same bytes.
  static string joined(std::vector<string> v) {
    std::sort(v.begin(), v.end());
    string r = "[";
    for (size_t i = 0; i < v.size(); ++i) { if (i) r += ","; r += v[i]; }
    return r + "]";
  }
  template<class V, class K> string sorted_keys(const V &v, K k) {
    std::vector<string> r;
    for (int x : v) r.push_back(js((this->*k)(x)));
    return joined(r);
  }
  static string b(bool x) { return x ? "1" : "0"; }
  void dump(std::ostream &o) {
    std::vector<string> T, F, E, M, S;
    for (auto &p : db->_type_map) {
      const InterrogateType &t = p.second;
      string r = "{\"tn\":" + js(tkey(p.first)) + ",\"n\":" + js(t.get_name()) + ",\"sn\":" + js(t._scoped_name)
        + ",\"lib\":" + js(libname(t)) + ",\"fd\":" + b(t._flags & InterrogateType::F_fully_defined)
        + ",\"gl\":" + b(t._flags & InterrogateType::F_global)
        + ",\"outer\":" + js(tkey(t._outer_class)) + ",\"wrapped\":" + js(tkey(t._wrapped_type))
        + ",\"ctors\":" + kvec(t._constructors, &Proj::fkey) + ",\"dtor\":" + js(fkey(t._destructor))
        + ",\"elems\":" + kvec(t._elements, &Proj::ekey) + ",\"methods\":" + kvec(t._methods, &Proj::fkey)
        + ",\"mseqs\":" + kvec(t._make_seqs, &Proj::skey) + ",\"casts\":" + kvec(t._casts, &Proj::fkey)
        + ",\"derivs\":[";
      bool g = true;
      for (auto &d : t._derivations) {
        if (!g) r += ","; g = false;
        r += "[" + js(tkey(d._base)) + "," + js(fkey(d._upcast)) + "," + js(fkey(d._downcast)) + "]";
      }
      r += "],\"nested\":" + kvec(t._nested_types, &Proj::tkey) + "}";
      T.push_back(r);
    }
    for (auto &p : db->_function_map) {
      if (p.second == nullptr) { F.push_back("{\"null\":1}"); continue; }
      const InterrogateFunction &fn = *p.second;
      string r = "{\"lib\":" + js(libname(fn)) + ",\"sn\":" + js(fn._scoped_name) + ",\"cls\":" + js(tkey(fn._class))
        + ",\"cw\":[";
      bool g = true;
      for (int w : fn._c_wrappers) { if (!g) r += ","; g = false; r += wrec(w); }
      r += "],\"pw\":[";
      g = true;
      for (int w : fn._python_wrappers) { if (!g) r += ","; g = false; r += wrec(w); }
      r += "]}";
      F.push_back(r);
    }
    for (auto &p : db->_element_map) {
      const InterrogateElement &e = p.second;
      E.push_back("{\"lib\":" + js(libname(e)) + ",\"sn\":" + js(e._scoped_name) + ",\"gl\":" + b(e._flags & InterrogateElement::F_global)
        + ",\"type\":" + js(tkey(e._type)) + ",\"getter\":" + js(fkey(e._getter)) + ",\"setter\":" + js(fkey(e._setter))
        + ",\"has\":" + js(fkey(e._has_function)) + ",\"clear\":" + js(fkey(e._clear_function))
        + ",\"del\":" + js(fkey(e._del_function)) + ",\"ins\":" + js(fkey(e._insert_function))
        + ",\"getkey\":" + js(fkey(e._getkey_function)) + ",\"len\":" + js(fkey(e._length_function)) + "}");
    }
    for (auto &p : db->_manifest_map) {
      const InterrogateManifest &m = p.second;
      M.push_back("{\"lib\":" + js(libname(m)) + ",\"n\":" + js(m.get_name()) + ",\"type\":" + js(tkey(m._type))
        + ",\"getter\":" + js(fkey(m._getter)) + "}");
    }
    for (auto &p : db->_make_seq_map) {
      const InterrogateMakeSeq &s = p.second;
      S.push_back("{\"lib\":" + js(libname(s)) + ",\"sn\":" + js(s._scoped_name) + ",\"lenf\":" + js(fkey(s._length_getter))
        + ",\"elemf\":" + js(fkey(s._element_getter)) + "}");
    }
    o << "\"P\":{\"T\":" << joined(T) << ",\"F\":" << joined(F) << ",\"E\":" << joined(E) << ",\"M\":" << joined(M)
      << ",\"S\":" << joined(S)
      << ",\"allT\":" << sorted_keys(db->_all_types, &Proj::tkey) << ",\"globT\":" << sorted_keys(db->_global_types, &Proj::tkey)
      << ",\"allF\":" << sorted_keys(db->_all_functions, &Proj::fkey) << ",\"globF\":" << sorted_keys(db->_global_functions, &Proj::fkey)
      << ",\"globM\":" << sorted_keys(db->_global_manifests, &Proj::mkey) << ",\"globE\":" << sorted_keys(db->_global_elements, &Proj::ekey)
      << ",\"nw\":" << db->_wrapper_map.size() << ",\"nt\":" << db->_type_map.size() << ",\"nf\":" << db->_function_map.size()
      << ",\"ne\":" << db->_element_map.size() << ",\"nm\":" << db->_manifest_map.size() << ",\"ns\":" << db->_make_seq_map.size()
      << "}";
  }
};

static void peek(DB *db, std::ostream &o) {
  o << "\"nreq\":" << db->_requests.size() << ",\"next\":" << db->_next_index << ",\"fresh\":" << db->_lookups_fresh
    << ",\"err\":" << (db->_error_flag ? 1 : 0) << ",\"nt\":" << db->_type_map.size() << ",\"nf\":" << db->_function_map.size()
    << ",\"nw\":" << db->_wrapper_map.size() << ",\"mods\":[";
  bool f = true;
  for (auto *d : db->_modules) {
    if (!f) o << ","; f = false;
    o << "[" << d->first_index << "," << d->next_index << "]";
  }
  o << "]";
}

static int run_case(const string &id, const std::vector<string> &steps, FILE *out) {
  int k = 0;
  for (const string &line : steps) {
    ++k;
    std::istringstream in(line);
    string op; in >> op;
    std::ostringstream o;
    o << "{\"case\":" << js(id) << ",\"k\":" << k << ",\"op\":" << js(op) << ",";
    DB *db = DB::get_ptr();
    if (op == "reqdb") {
      string path; in >> path;
      interrogate_request_database(path.c_str());
      peek(db, o);
    } else if (op == "reqmod") {
      string path; int count; in >> path >> count;
      InterrogateModuleDef *def = new InterrogateModuleDef;
      memset(def, 0, sizeof(*def));
      def->database_filename = strdup(path.c_str());
      def->first_index = 1;
      def->next_index = 1 + count;
      interrogate_request_module(def);
      peek(db, o);
    } else if (op == "peek") {
      peek(db, o);
    } else if (op == "lookup") {
      string kind, name; in >> kind;
      std::getline(in, name);
      if (!name.empty() && name[0] == ' ') name = name.substr(1);
      int r = 0;
      Proj p{db};
      string found;
      if (kind == "tn") { r = db->lookup_type_by_name(name); found = p.tkey(r); }
      else if (kind == "tsn") { r = db->lookup_type_by_scoped_name(name); found = p.tkey(r); }
      else if (kind == "ttn") { r = db->lookup_type_by_true_name(name); found = p.tkey(r); }
      else if (kind == "mn") { r = db->lookup_manifest_by_name(name); found = p.mkey(r); }
      else if (kind == "en") { r = db->lookup_element_by_name(name); found = p.ekey(r); }
      else if (kind == "esn") { r = db->lookup_element_by_scoped_name(name); found = p.ekey(r); }
      o << "\"kind\":" << js(kind) << ",\"name\":" << js(name) << ",\"found\":" << js(found) << ",";
      peek(db, o);
    } else if (op == "proj") {
      // a public query first: this is what triggers the lazy load
      int n = interrogate_number_of_types();
      o << "\"ntypes\":" << n << ",";
      peek(db, o);
      o << ",";
      Proj p{db};
      p.dump(o);
    } else if (op == "raw") {
      int n = interrogate_number_of_types();
      o << "\"ntypes\":" << n << ",";
      dump_raw(db, o);
    } else {
      o << "\"error\":\"unknown op\"";
    }
    o << "}\n";
    string s = o.str();
    fwrite(s.data(), 1, s.size(), out);
    fflush(out);
  }
  return 0;
}

int main(int argc, char **argv) {
  if (argc < 4 || strcmp(argv[1], "batch") != 0) {
    fprintf(stderr, "usage: idbm_tool batch <script> <out>\n");
    return 2;
  }
  std::ifstream in(argv[2]);
  if (!in) { fprintf(stderr, "cannot read %s\n", argv[2]); return 2; }
  FILE *out = fopen(argv[3], "a");
  if (!out) { fprintf(stderr, "cannot write %s\n", argv[3]); return 2; }
  string line, id;
  std::vector<string> steps;
  bool in_case = false;
  while (std::getline(in, line)) {
    if (line.compare(0, 5, "case ") == 0) { id = line.substr(5); steps.clear(); in_case = true; continue; }
    if (line == "end" && in_case) {
      in_case = false;
      fflush(out);
      // delimit the executions in the hook trace (the children append to the same file)
      if (const char *tr = getenv("INTERROGATE_VERIF_TRACE")) {
        if (tr[0] != '\0') {
          FILE *tf = fopen(tr, "a");
          if (tf) { fprintf(tf, "{\"e\":\"Case\",\"id\":%s}\n", js(id).c_str()); fclose(tf); }
        }
      }
      pid_t pid = fork();
      if (pid == 0) {
        alarm(60);
        run_case(id, steps, out);
        fflush(out);
        _exit(0);
      }
      int st = 0;
      waitpid(pid, &st, 0);
      fprintf(out, "{\"case\":%s,\"exit\":%d,\"sig\":%d}\n", js(id).c_str(),
              WIFEXITED(st) ? WEXITSTATUS(st) : -1, WIFSIGNALED(st) ? WTERMSIG(st) : 0);
      fflush(out);
      continue;
    }
    if (in_case && !line.empty()) steps.push_back(line);
  }
  fclose(out);
  return 0;
}
