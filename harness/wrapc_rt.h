// C01 runtime shared by the generated library bodies (lib<N>_impl.cxx) and the generated native
// driver (lib<N>_native.cxx).  It is the C++ transcription of specs/CppLibCalls.tla: H32/H64/H,
// Mix, Weight, Encode, Bnd.  spec != native is a MachineryError in vf/checks/c01.py, so a slip
// here can never become a verdict.
#ifndef WRAPC_RT_H
#define WRAPC_RT_H
#include <cstdint>
#include <cstdio>
#include <cstdlib>
#include <cstring>
#include <string>

namespace vfrt {

struct Raw {};
static const long StMod = 32768;

// ---- the string table -------------------------------------------------------------------
static const int NStrings = 6;    // CppLibCalls!NStrings
static const int NCStrings = 5;   // entries a C string can be (no embedded NUL)
inline const std::string &table(int t) {
  static const std::string T[NStrings] = {
    "", "a b",
    std::string("The quick brown fox jumps over the lazy dog. ") + std::string(155, 'x'),   // 200 bytes
    "q\"uo\\te'",
    "\xc3\xa9\xe2\x82\xac\xf0\x9f\x98\x80~",          // UTF-8: 2-, 3- and 4-byte sequences
    std::string("a b\0tail", 8)};                      // embedded NUL followed by more data
  return T[(t >= 0 && t < NStrings) ? t : 0];
}
// text = table[t] ("#" n)?   ->   t, n (-1 when absent); t = -1 when the text is not of that form
inline void parse_str(const std::string &s, int &t, long &n) {
  t = -1; n = -1;
  for (int i = NStrings - 1; i >= 0; --i) {      // the longest matching entry wins
    const std::string &b = table(i);
    if (s.compare(0, b.size(), b) != 0) continue;
    if (s.size() == b.size()) { if (t < 0 || b.size() > table(t).size()) { t = i; n = -1; } continue; }
    if (s[b.size()] != '#') continue;
    const char *p = s.c_str() + b.size() + 1;
    if (!*p) continue;
    char *e; long v = strtol(p, &e, 10);
    if (*e) continue;
    if (t < 0 || b.size() > table(t).size()) { t = i; n = v; }
  }
}
inline std::string mkstr(long t, long n) { return n < 0 ? table((int)t) : table((int)t) + "#" + std::to_string(n); }

// ---- H ------------------------------------------------------------------------------------
inline uint32_t H32(uint32_t p) { return (p >> 16) * 7u + (p & 0xffffu) * 13u; }
inline uint32_t H64(uint64_t v) { return (H32((uint32_t)(v >> 32)) * 3u + H32((uint32_t)v)) % 1000003u; }
// floating kinds carry k/8 with k a 32-bit integer; anything else is logged as it is and hashes to 999
inline bool kof(double x, int64_t &k) {
  double y = x * 8.0;
  if (!(y >= -2147483648.0 && y <= 2147483647.0)) return false;
  k = (int64_t)y;
  return (double)k == y;
}
inline uint32_t HF(double x) { int64_t k; return kof(x, k) ? H32((uint32_t)(int32_t)k) : 999u; }
inline uint32_t HS(const std::string &s) {
  int t; long n; parse_str(s, t, n);
  if (t < 0) return 7u;
  return (uint32_t)((t + 1) * 101 + (n >= 0 ? n + 1 : 0));
}

// ---- the call log -------------------------------------------------------------------------
FILE *logfile();
void json_str(FILE *f, const std::string &s);

struct Call {
  long long sum; long wsum; int pos; FILE *f; uint32_t lasth;
  Call(int gid, long sigid, long thisst) : sum(sigid + 17LL * thisst), wsum(1), pos(0), f(logfile()) {
    if (f) fprintf(f, "{\"g\":%d,\"f\":%ld,\"this\":%ld,\"args\":[", gid, sigid, thisst);
  }
  void add(uint32_t h) { static const int P[3] = {101, 211, 307}; sum += (long long)P[pos] * h; wsum += h % 7; ++pos; lasth = h; }
  void sep() { if (f && pos) fputc(',', f); }
  void s(long long v) { sep(); if (f) fprintf(f, "%lld", v); add(H32((uint32_t)(int32_t)v)); }          // <= 32 bit, signed
  void u(unsigned long long v) { sep(); if (f) fprintf(f, "%llu", v); add(H32((uint32_t)v)); }          // <= 32 bit, unsigned
  void s64(long long v) { sep(); if (f) fprintf(f, "%lld", v); add(H64((uint64_t)v)); }
  void u64(unsigned long long v) { sep(); if (f) fprintf(f, "%llu", v); add(H64((uint64_t)v)); }
  void fl(double x) { sep(); if (f) fprintf(f, "%.17g", x * 8.0); add(HF(x)); }
  void b(bool v) { sep(); if (f) fprintf(f, "%d", v ? 1 : 0); add(v ? 2u : 1u); }
  void str(const char *p) { std::string t(p ? p : "<null>"); sep(); if (f) json_str(f, t); add(HS(t)); }
  void str(const std::string &t) { sep(); if (f) json_str(f, t); add(HS(t)); }
  // an object argument: the state of its K0 part and its payload (CppLibCalls!K0Part)
  void obj(bool null, long st, long tg) {
    sep();
    if (f) { if (null) fputs("null", f); else fprintf(f, "{\"st\":%ld,\"tg\":%ld}", st, tg); }
    add(null ? 40000u : (uint32_t)((st + 7 * (tg + 1)) % StMod));
  }
  long mix() { if (f) { fputs("]}\n", f); fflush(f); f = 0; } return (long)sum; }
  long weight() const { return wsum; }
};

// ---- Encode -------------------------------------------------------------------------------
inline long long gen32(long m) { return m % 2 == 0 ? (long long)m : -(long long)m - 1; }
inline int bidx(long m, int n) { return (int)((m / 5) % n); }
inline signed char enc_i8(long m) { static const int B[5] = {0, 1, -1, -128, 127}; return (signed char)(m % 5 == 0 ? B[bidx(m, 5)] : (int)(m % 256) - 128); }
inline unsigned char enc_u8(long m) { static const int B[4] = {0, 1, 255, 128}; return (unsigned char)(m % 5 == 0 ? B[bidx(m, 4)] : (int)(m % 256)); }
inline short enc_i16(long m) { static const int B[5] = {0, 1, -1, -32768, 32767}; return (short)(m % 5 == 0 ? B[bidx(m, 5)] : (int)(m % 65536) - 32768); }
inline unsigned short enc_u16(long m) { static const int B[4] = {0, 1, 65535, 32768}; return (unsigned short)(m % 5 == 0 ? B[bidx(m, 4)] : (int)(m % 65536)); }
inline int enc_i32(long m) { static const long long B[5] = {0, 1, -1, -2147483648LL, 2147483647LL}; return (int)(m % 5 == 0 ? B[bidx(m, 5)] : gen32(m)); }
inline unsigned int enc_u32(long m) { static const unsigned int B[5] = {0u, 1u, 4294967295u, 2147483648u, 2147483647u}; return m % 5 == 0 ? B[bidx(m, 5)] : (unsigned int)(int)gen32(m); }
inline uint64_t pair64(long long hi, long long lo) { return ((uint64_t)(uint32_t)(int32_t)hi << 32) | (uint64_t)(uint32_t)(int32_t)lo; }
inline long long enc_i64(long m) {
  static const long long B[7][2] = {{0, 0}, {0, 1}, {-1, -1}, {-2147483648LL, 0}, {2147483647LL, -1}, {1, 0}, {0, -1}};
  if (m % 5 == 0) { int i = bidx(m, 7); return (long long)pair64(B[i][0], B[i][1]); }
  return (long long)pair64(gen32(m), gen32(2000000011L - m));
}
inline unsigned long long enc_u64(long m) {
  static const long long B[6][2] = {{0, 0}, {0, 1}, {-1, -1}, {-2147483648LL, 0}, {1, 0}, {0, -1}};
  if (m % 5 == 0) { int i = bidx(m, 6); return pair64(B[i][0], B[i][1]); }
  return pair64(gen32(m), gen32(2000000011L - m));
}
inline float enc_f32(long m) { static const long B[6] = {0, 1, -1, 16777215, -16777215, 12}; long k = m % 5 == 0 ? B[bidx(m, 6)] : (m % 16777216) - 8388608; return (float)k / 8.0f; }
inline double enc_f64(long m) { static const long long B[7] = {0, 1, -1, 16777217, -16777217, 2147483647LL, -2147483648LL}; long long k = m % 5 == 0 ? B[bidx(m, 7)] : gen32(m); return (double)k / 8.0; }
inline bool enc_bool(long m) { return m % 2 != 0; }
inline unsigned int enc_enum(long m) { static const unsigned int V[3] = {0, 5, 70000}; return V[m % 3]; }
inline int enc_enumc(long m) { static const int V[3] = {-3, 0, 100}; return V[m % 3]; }
inline long long enc_enuml(long m) { static const long long V[3] = {0, 5000000000LL, -5000000000LL}; return V[m % 3]; }
inline std::string enc_string(long m) { return mkstr(m % NStrings, m % 100000); }
// a returned C string must outlive the call: one buffer per call site
inline const char *enc_cstr(long m, std::string &hold) { hold = mkstr(m % NCStrings, m % 100000); return hold.c_str(); }

// ---- the payload of a K0 part: a heap-allocated string spelling the number tg ------------------
inline std::string mktag(long tg) { return "payload-tag-text-" + std::to_string(tg); }
inline long tagnum(const std::string &t) {       // -1: not a payload text (e.g. moved from)
  static const std::string P = "payload-tag-text-";
  if (t.size() <= P.size() || t.compare(0, P.size(), P) != 0) return -1;
  char *e; long v = strtol(t.c_str() + P.size(), &e, 10);
  return *e ? -1 : v;
}
template<class T> inline T *enc_ptr(long m, T **c, int n, bool nullable) {
  if (nullable && m % 5 == 0) return (T *)0;
  if (n == 0) return (T *)0;
  return c[m % n];
}

}  // namespace vfrt

extern "C" void vf_log_mark(int b, int i);
#endif
