"""Child process of vf/checks/c07.py: load ONE interrogate database through the C query interface of
libinterrogatedb (ctypes) and print, as JSON, every constant it records:
  E: enum type name -> [[enumerator name, value], ...]
  M: manifest name  -> int value, or null when interrogate_manifest_has_int_value() is false
  A: global element name of array type -> interrogate_type_array_size()
usage: python3 c07_dump.py <libinterrogatedb.so> <file.in>
(A separate process per database: the library keeps every requested database in one global index space.)"""
import ctypes as c, sys, json

lib = c.CDLL(sys.argv[1])
S = c.c_char_p
lib.interrogate_request_database.argtypes = [S]
for f in ("interrogate_type_name", "interrogate_type_enum_value_name", "interrogate_manifest_name",
          "interrogate_element_name"):
    getattr(lib, f).restype = S
for f in ("interrogate_manifest_has_int_value", "interrogate_type_is_enum", "interrogate_type_is_array",
          "interrogate_error_flag"):
    getattr(lib, f).restype = c.c_bool
lib.interrogate_request_database(sys.argv[2].encode())
out = {"E": {}, "M": {}, "A": {}}
for i in range(lib.interrogate_number_of_types()):
    t = lib.interrogate_get_type(i)
    if lib.interrogate_type_is_enum(t):
        out["E"][lib.interrogate_type_name(t).decode()] = [
            [lib.interrogate_type_enum_value_name(t, k).decode(), lib.interrogate_type_enum_value(t, k)]
            for k in range(lib.interrogate_type_number_of_enum_values(t))]
for i in range(lib.interrogate_number_of_manifests()):
    m = lib.interrogate_get_manifest(i)
    out["M"][lib.interrogate_manifest_name(m).decode()] = (
        lib.interrogate_manifest_get_int_value(m) if lib.interrogate_manifest_has_int_value(m) else None)
for i in range(lib.interrogate_number_of_globals()):
    e = lib.interrogate_get_global(i)
    t = lib.interrogate_element_type(e)
    if lib.interrogate_type_is_array(t):
        out["A"][lib.interrogate_element_name(e).decode()] = lib.interrogate_type_array_size(t)
out["err"] = bool(lib.interrogate_error_flag())
json.dump(out, sys.stdout)
