#!/usr/bin/env python3
"""Query driver for libinterrogatedb (C12 / C20), stdlib + ctypes only.

usage: idb_driver.py <libinterrogatedb.so> <interrogate_interface.h> <jobs.json> <results.json> [<libidbwrite.so>]

jobs.json    {"timeout": seconds per query, "cases": [{"id": ..., "setup": [op...], "queries": [op...]}, ...]}
results.json {"functions": {name: [ret, [argtype...]]}, "results": {id: {"r": [result per query], "stderr": tail}}}

Every case runs in a freshly forked child of this process (the library is loaded but no library function
has been called before the fork, so the child starts from an empty database).  The child performs the setup
ops, then the queries one by one, reporting each answer through a pipe before it starts the next; a CPU-time
limit of <timeout> seconds per query (SIGXCPU; insensitive to machine load) and a generous wall-clock alarm
(SIGALRM), both with the default disposition, kill a query that hangs.  When the child dies at query k the answer of k is
{"died": <signal or -exitcode>} and a new child repeats the setup and goes on with query k+1, so that every
call is isolated without paying a process per call.

setup ops    ["db", path] interrogate_request_database      ["mod", {...}] interrogate_request_module
             ["dbmem", latin1-text] the same for a file given by content (memfd; "dbmem" also as key of "mod")
             ["touch"] force loading                         ["dir", d] interrogate_add_search_directory
query ops    any setup op (a further request in the middle of a history)     -> null
             ["c", fname, int...]      call by index / position      -> value
             ["n", fname, latin1-name] call by name                  -> value
             ["sweep", fname, [i...]] / ["sweep", fname, [[i, [n...]]...]]   many calls of one function -> list
             ["dump", maxidx, maxpos]  every function x 0..maxidx x 0..maxpos-1 -> {fname: value | [..] | [[..]..]}
             ["rewrite", id, lib, hash, mod] InterrogateDatabase::write with a fresh module def -> file text
             ["rewrite_def", k]        ... with the k-th module def of the setup (as read_new left it)
             ["def", k]                first/next index and names of the k-th module def
strings travel as latin-1 text (one character per byte); a NULL answer is reported as "".
"""
import ctypes, json, os, re, resource, signal, sys, tempfile

C = ctypes


class UN(C.Structure):
    _fields_ = [("name", C.c_char_p), ("index_offset", C.c_int)]


class MD(C.Structure):
    _fields_ = [("file_identifier", C.c_int), ("library_name", C.c_char_p), ("library_hash_name", C.c_char_p),
                ("module_name", C.c_char_p), ("database_filename", C.c_char_p),
                ("unique_names", C.POINTER(UN)), ("num_unique_names", C.c_int),
                ("fptrs", C.POINTER(C.c_void_p)), ("num_fptrs", C.c_int),
                ("first_index", C.c_int), ("next_index", C.c_int)]


DECL = re.compile(r"EXPCL_INTERROGATEDB\s+([\w\s\*]+?)\s*\b(interrogate_\w+)\s*\(([^)]*)\)\s*;")
INTS = {"int", "ManifestIndex", "ElementIndex", "TypeIndex", "FunctionIndex", "FunctionWrapperIndex",
        "MakeSeqIndex", "AtomicToken"}


def parse_header(path):
    """name -> (ret, [argtype...]) with types in {i, b, s, p, v}"""
    txt = re.sub(r"/\*.*?\*/", "", open(path).read(), flags=re.S)
    txt = re.sub(r"//[^\n]*", "", txt)
    out = {}

    def ty(t):
        t = " ".join(t.replace("*", " * ").split())
        if t in INTS:
            return "i"
        if t == "bool":
            return "b"
        if t == "const char *":
            return "s"
        if t == "void *":
            return "p"
        if t == "void":
            return "v"
        raise SystemExit("idb_driver: unknown type %r in %s" % (t, path))
    for m in DECL.finditer(txt):
        ret, name, args = m.group(1), m.group(2), m.group(3).strip()
        al = []
        if args and args != "void":
            for a in args.split(","):
                a = a.strip()
                al.append(ty(re.sub(r"\b\w+$", "", a).strip() if not a.endswith("*") else a))
        out[name] = (ty(ret), al)
    return out


CT = {"i": C.c_int, "b": C.c_bool, "s": C.c_char_p, "p": C.c_void_p, "v": None}


def enc(s):
    return None if s is None else s.encode("latin-1")


def dec(b):
    return None if b is None else b.decode("latin-1")


class Child:
    def __init__(self, lib, writer, funcs):
        self.lib, self.writer, self.funcs = lib, writer, funcs
        self.defs, self.keep = [], []

    def fn(self, name):
        return getattr(self.lib, name)

    def memfile(self, text):
        """a database file that exists only in this child: an anonymous memory file, named through /proc"""
        fd = os.memfd_create("idb")
        data = enc(text)
        while data:
            data = data[os.write(fd, data):]
        return "/proc/self/fd/%d" % fd

    def setup(self, op):
        k = op[0]
        if k == "db":
            self.lib.interrogate_request_database(enc(op[1]))
        elif k == "dbmem":
            self.lib.interrogate_request_database(enc(self.memfile(op[1])))
        elif k == "dir":
            self.lib.interrogate_add_search_directory(enc(op[1]))
        elif k == "touch":
            self.lib.interrogate_number_of_types()
        elif k == "mod":
            d = op[1]
            md = MD()
            md.file_identifier = d.get("id", 0)
            md.library_name, md.library_hash_name, md.module_name = enc(d.get("lib")), enc(d.get("hash")), enc(d.get("mod"))
            md.database_filename = enc(self.memfile(d["dbmem"]) if "dbmem" in d else d.get("dbfile"))
            names = d.get("names")
            if names is not None:
                arr = (UN * max(1, len(names)))(*[UN(enc(n), o) for n, o in names])
                md.unique_names, md.num_unique_names = arr, len(names)
                self.keep.append(arr)
            fp = d.get("fptrs")
            if fp is not None:
                arr = (C.c_void_p * max(1, len(fp)))(*[C.c_void_p(x) if x else None for x in fp])
                md.fptrs, md.num_fptrs = C.cast(arr, C.POINTER(C.c_void_p)), len(fp)
                self.keep.append(arr)
            md.first_index, md.next_index = d.get("first", 0), d.get("next", 0)
            self.defs.append(md)
            self.lib.interrogate_request_module(C.byref(md))
        else:
            raise SystemExit("idb_driver: unknown setup op %r" % (op,))

    def call(self, name, *args):
        ret, at = self.funcs[name]
        v = self.fn(name)(*args)
        if ret == "s":
            return "" if v is None else dec(v)      # NULL (a record without module def) counts as empty
        if ret == "p":
            return v or 0
        if ret == "b":
            return bool(v)
        return v

    def query(self, op):
        k = op[0]
        if k in ("db", "dbmem", "mod", "touch", "dir"):      # a setup op in the middle of a history
            self.setup(op)
            return None
        if k == "c":
            return self.call(op[1], *op[2:])
        if k == "n":
            return self.call(op[1], enc(op[2]))
        if k == "sweep":        # ["sweep", fname, [i...]] or ["sweep", fname, [[i, [n...]]...]]
            name = op[1]
            if self.funcs[name][1] == ["i", "i"]:
                return [[self.call(name, i, n) for n in ns] for i, ns in op[2]]
            return [self.call(name, i) for i in op[2]]
        if k == "dump":
            maxidx, maxpos = op[1], op[2]
            out = {}
            for name, (ret, at) in sorted(self.funcs.items()):
                if ret == "v" or "s" in at:
                    continue
                if at == []:
                    out[name] = self.call(name)
                elif at == ["i"]:
                    out[name] = [self.call(name, i) for i in range(0, maxidx + 1)]
                elif at == ["i", "i"]:
                    out[name] = [[self.call(name, i, n) for n in range(0, maxpos)] for i in range(0, maxidx + 1)]
            return out
        if k in ("rewrite", "rewrite_def"):
            if self.writer is None:
                raise SystemExit("idb_driver: no writer library given")
            if k == "rewrite":
                md = MD()
                md.file_identifier = op[1]
                md.library_name, md.library_hash_name, md.module_name = enc(op[2]), enc(op[3]), enc(op[4])
            else:
                md = self.defs[op[1]]
            n = C.c_int(0)
            buf = self.writer.verif_idb_write_mem(C.byref(md), C.byref(n))
            data = C.string_at(buf, n.value)
            self.writer.verif_idb_free(buf)
            rc = 0
            return {"rc": rc, "text": data.decode("latin-1")}
        if k == "def":
            md = self.defs[op[1]]
            return {"first": md.first_index, "next": md.next_index, "lib": dec(md.library_name),
                    "hash": dec(md.library_hash_name), "mod": dec(md.module_name)}
        raise SystemExit("idb_driver: unknown query op %r" % (op,))


def limit(timeout):
    """at most `timeout` more seconds of CPU, and 30 x that of wall clock, for the next operation"""
    ru = resource.getrusage(resource.RUSAGE_SELF)
    soft = int(ru.ru_utime + ru.ru_stime) + timeout + 1
    resource.setrlimit(resource.RLIMIT_CPU, (soft, resource.RLIM_INFINITY))
    signal.alarm(timeout * 30)


def run_case(lib, writer, funcs, case, timeout):
    """-> list of results, one per query"""
    queries = case["queries"]
    results = []
    errf = tempfile.TemporaryFile()
    start = 0
    while start < len(queries) or (not queries and start == 0):
        rfd, wfd = os.pipe()
        pid = os.fork()
        if pid == 0:
            try:
                os.close(rfd)
                os.dup2(errf.fileno(), 2)
                signal.signal(signal.SIGALRM, signal.SIG_DFL)
                signal.signal(signal.SIGXCPU, signal.SIG_DFL)
                resource.setrlimit(resource.RLIMIT_AS, (4 << 30, 4 << 30))     # a runaway allocation fails, not the machine
                limit(timeout)
                ch = Child(lib, writer, funcs)
                for op in case["setup"]:
                    ch.setup(op)
                os.write(wfd, b"S\n")
                for q in queries[start:]:
                    limit(timeout)
                    v = ch.query(q)
                    os.write(wfd, (json.dumps(v) + "\n").encode())
                signal.alarm(0)
                os._exit(0)
            except SystemExit as e:
                os.write(2, str(e).encode())
                os._exit(97)
            except BaseException as e:            # a Python-level failure of the driver itself
                os.write(2, ("idb_driver child: %r" % (e,)).encode())
                os._exit(98)
        os.close(wfd)
        buf = b""
        while True:
            chunk = os.read(rfd, 1 << 16)
            if not chunk:
                break
            buf += chunk
        os.close(rfd)
        _, status = os.waitpid(pid, 0)
        lines = buf.split(b"\n")[:-1]
        setup_done = bool(lines) and lines[0] == b"S"
        got = [json.loads(l) for l in lines[1:]] if setup_done else []
        results += got
        start += len(got)
        if os.WIFSIGNALED(status):
            died = os.WTERMSIG(status)
        else:
            died = -os.WEXITSTATUS(status) if os.WEXITSTATUS(status) else None
        if died is None:
            break
        if died in (-97, -98):
            errf.seek(0)
            raise SystemExit("idb_driver: %s" % errf.read()[-2000:].decode("latin-1"))
        if not setup_done:
            # the setup itself kills the process: every remaining query has that answer
            results += [{"died": died, "in": "setup"}] * (len(queries) - start)
            if not queries:
                results.append({"died": died, "in": "setup"})
            break
        results.append({"died": died})
        start += 1
        if start >= len(queries):
            break
    errf.seek(0)
    err = errf.read()[-600:].decode("latin-1")
    errf.close()
    return {"r": results, "stderr": err}


def main():
    libpath, header, jobs, outp = sys.argv[1:5]
    funcs = parse_header(header)
    if "--functions" in sys.argv:
        json.dump({"functions": funcs}, open(outp, "w"))
        return
    lib = C.CDLL(libpath)
    for name, (ret, at) in funcs.items():
        f = getattr(lib, name)
        f.restype = CT[ret]
        f.argtypes = [CT[a] for a in at]
    lib.interrogate_request_database.argtypes = [C.c_char_p]
    lib.interrogate_request_database.restype = None
    lib.interrogate_request_module.argtypes = [C.POINTER(MD)]
    lib.interrogate_request_module.restype = None
    writer = None
    if len(sys.argv) > 5 and not sys.argv[5].startswith("--"):
        writer = C.CDLL(sys.argv[5])
        writer.verif_idb_write.argtypes = [C.c_char_p, C.POINTER(MD)]
        writer.verif_idb_write.restype = C.c_int
        writer.verif_idb_write_mem.argtypes = [C.POINTER(MD), C.POINTER(C.c_int)]
        writer.verif_idb_write_mem.restype = C.c_void_p
        writer.verif_idb_free.argtypes = [C.c_void_p]
        writer.verif_idb_free.restype = None
    job = json.load(open(jobs))
    timeout = int(job.get("timeout", 5))
    res = {}
    for case in job["cases"]:
        res[str(case["id"])] = run_case(lib, writer, funcs, case, timeout)
    with open(outp, "w") as f:
        json.dump({"functions": funcs, "results": res}, f)


if __name__ == "__main__":
    main()
