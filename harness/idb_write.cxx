// C12 / C20 harness: InterrogateDatabase::write is a C++ method taking an ostream, so the ctypes driver
// (idb_driver.py) reaches it through this one extern "C" function.  Built as a shared object against
// libinterrogatedb by vf/harness.py (link_idb=True, shared=True).
#include "interrogateDatabase.h"
#include "interrogate_request.h"

#include <fstream>

extern "C" int
verif_idb_write(const char *path, InterrogateModuleDef *def) {
  std::ofstream out(path, std::ios::out | std::ios::binary | std::ios::trunc);
  if (!out) {
    return 1;
  }
  InterrogateDatabase::get_ptr()->write(out, def);
  out.close();
  return out.fail() ? 2 : 0;
}
