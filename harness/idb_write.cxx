// C12 / C20 harness: InterrogateDatabase::write is a C++ method taking an ostream, so the ctypes driver
// (idb_driver.py) reaches it through this one extern "C" function.  Built as a shared object against
// libinterrogatedb by vf/harness.py (link_idb=True, shared=True).
#include "interrogateDatabase.h"
#include "interrogate_request.h"

#include <fstream>
#include <sstream>
#include <cstring>
#include <cstdlib>

extern "C" int
verif_idb_write(const char *path, InterrogateModuleDef *def) {
  std::ofstream out(path, std::ios::out | std::ios::binary | std::ios::trunc);
  if (!out) {
    return 1;
  }
  InterrogateDatabase::get_ptr()->write(out, def);
  out.close();
  return out.fail() ? 2 : 0;
}

// The same into memory: returns a malloc'ed buffer (length in *len); the caller frees it with verif_idb_free.
extern "C" char *
verif_idb_write_mem(InterrogateModuleDef *def, int *len) {
  std::ostringstream out;
  InterrogateDatabase::get_ptr()->write(out, def);
  std::string s = out.str();
  char *buf = (char *)malloc(s.size() + 1);
  memcpy(buf, s.data(), s.size());
  buf[s.size()] = 0;
  *len = (int)s.size();
  return buf;
}

extern "C" void
verif_idb_free(char *buf) {
  free(buf);
}
