// C01 native driver: executes the resolved call scripts (vf/wraplib.py native_script) with DIRECT
// C++ calls (generated call sites, one per function x number of omitted defaults) and prints one
// JSON line per step: {"b":behaviour,"i":step,"ret":value,"post":[[st,bst,tg]|null,...]}.
// Line format of the script:
//   B <bid> <family>      begin behaviour          E            end (remaining objects are deleted)
//   C <this> <gid> <k> <args...>   call / construct through call site (gid,k); this = slot or 0
//   G <slot> <kind#>      read data member          S <slot> <kind#> <v>   write data member
//   Y <slot>              copy-construct            U <slot> <base#>       state seen through a base
//   D <slot>              delete
// Arguments: integers in decimal, floating kinds as the integer k of k/8, strings as table index,
// objects as slot numbers (0 = null).
#ifndef WRAPC_NATIVE_H
#define WRAPC_NATIVE_H
#include <vector>
#include <string>
#include <sstream>
#include <fstream>
#include <iostream>
#include <map>
#include "wrapc_rt.h"

struct Slot { int cls; void *p; bool live; };

struct X {
  std::vector<Slot> slots;
  std::vector<std::string> a;     // argument tokens of the current step
  std::vector<std::string> hold;  // string arguments
  int selfslot;
  std::string ret, post;
  Slot &self() { return slots[selfslot]; }
  long long I(int j) { return strtoll(a[j].c_str(), 0, 10); }
  unsigned long long U(int j) { return strtoull(a[j].c_str(), 0, 10); }
  double F(int j) { return (double)strtoll(a[j].c_str(), 0, 10) / 8.0; }
  const std::string &S(int j) { hold[j] = vfrt::table((int)I(j)); return hold[j]; }
  void ret_void() { ret = "null"; }
  void ret_i(long long v) { ret = std::to_string(v); }
  void ret_u(unsigned long long v) { ret = std::to_string(v); }
  void ret_f(double x) { char b[64]; snprintf(b, sizeof b, "%.17g", x * 8.0); ret = b; }
  void ret_s(const std::string &s) {
    std::string o = "\"";
    for (unsigned char c : s) {
      char b[8];
      if (c == '"' || c == '\\') { o += '\\'; o += (char)c; }
      else if (c < 0x20 || c == 0x7f) { snprintf(b, sizeof b, "\\u%04x", c); o += b; }     // UTF-8 bytes as they are
      else o += (char)c;
    }
    ret = o + "\"";
  }
  void post_begin() { post = "["; }
  void post_dead() { if (post.size() > 1) post += ","; post += "null"; }
  void post_live(long st, long bst, long tg) { if (post.size() > 1) post += ","; post += "[" + std::to_string(st) + "," + std::to_string(bst) + "," + std::to_string(tg) + "]"; }
  void post_end() { post += "]"; }
};

struct Entry { int gid, k; void (*fn)(X &); };
struct Fam {
  int fam;
  void (*post)(X &);
  void (*del)(Slot &);
  void (*copy)(X &, Slot &);
  void (*getd)(X &, Slot &, int);
  void (*setd)(X &, Slot &, int);
  void (*up)(X &, Slot &, int);
};

static int vf_native_main(int argc, char **argv, const Entry *tab, const Fam *fams) {
  if (argc < 2) return 2;
  std::map<std::pair<int, int>, void (*)(X &)> disp;
  for (const Entry *e = tab; e->fn; ++e) disp[std::make_pair(e->gid, e->k)] = e->fn;
  std::map<int, const Fam *> fm;
  for (const Fam *f = fams; f->fam >= 0; ++f) fm[f->fam] = f;
  std::ifstream in(argv[1]);
  std::string line;
  X x;
  const Fam *F = 0;
  int bid = 0, step = 0;
  while (std::getline(in, line)) {
    std::istringstream ss(line);
    std::string op;
    ss >> op;
    std::vector<std::string> t;
    std::string w;
    while (ss >> w) t.push_back(w);
    if (op == "B") {
      bid = atoi(t[0].c_str());
      F = fm[atoi(t[1].c_str())];
      x.slots.clear();
      Slot z; z.cls = 0; z.p = 0; z.live = false;
      x.slots.push_back(z);
      step = 0;
      continue;
    }
    if (op == "E") {
      for (size_t i = 1; i < x.slots.size(); ++i) if (x.slots[i].live) F->del(x.slots[i]);
      continue;
    }
    vf_log_mark(bid, step);
    x.ret = "null";
    if (op == "C") {
      x.selfslot = atoi(t[0].c_str());
      int gid = atoi(t[1].c_str()), k = atoi(t[2].c_str());
      x.a.assign(t.begin() + 3, t.end());
      x.hold.assign(x.a.size(), std::string());
      void (*fn)(X &) = disp[std::make_pair(gid, k)];
      if (!fn) { fprintf(stderr, "no call site %d/%d\n", gid, k); return 3; }
      fn(x);
    } else if (op == "G") {
      F->getd(x, x.slots[atoi(t[0].c_str())], atoi(t[1].c_str()));
    } else if (op == "S") {
      x.a.assign(t.begin() + 1, t.end());      // a[1] is the value (native_arg(kind, 2))
      x.hold.assign(x.a.size(), std::string());
      F->setd(x, x.slots[atoi(t[0].c_str())], atoi(t[1].c_str()));
    } else if (op == "Y") {
      F->copy(x, x.slots[atoi(t[0].c_str())]);
    } else if (op == "U") {
      F->up(x, x.slots[atoi(t[0].c_str())], atoi(t[1].c_str()));
    } else if (op == "D") {
      F->del(x.slots[atoi(t[0].c_str())]);
    } else {
      fprintf(stderr, "bad line: %s\n", line.c_str());
      return 3;
    }
    F->post(x);
    printf("{\"b\":%d,\"i\":%d,\"ret\":%s,\"post\":%s}\n", bid, step, x.ret.c_str(), x.post.c_str());
    ++step;
  }
  fflush(stdout);
  return 0;
}
#endif
