/* shufmalloc.so — LD_PRELOAD allocator used by the C14 check (Repro.tla: hidden input
 * `allocOrder`).
 *
 * Every allocation of at most 1 KiB is served from a per-size-class slab whose slots are handed
 * out in a pseudo-random order derived from $SHUF_SEED, so that objects of one type that are
 * created one after the other (FunctionRemap, CPPType, CPPInstance, ...) get addresses in an
 * arbitrary relative order.  Anything a tool derives from pointer order then changes with the
 * seed; anything that is a function of the inputs alone does not.
 *
 * Slots carry a 16-byte header with the size class, so realloc() copies exactly the old
 * contents; free() of a slab slot is a no-op (the tools are short-lived processes).  Larger
 * requests, aligned allocations and everything after the arena is exhausted go to the next
 * allocator in the chain.  With SHUF_SEED unset or 0 the slots are handed out in ascending order
 * (the behaviour everyone sees with an ordinary allocator); SHUF_SEED=rev hands them out in
 * descending order.
 */
#define _GNU_SOURCE
#include <dlfcn.h>
#include <stddef.h>
#include <stdint.h>
#include <stdlib.h>
#include <string.h>
#include <unistd.h>

#define NCLASS 64                       /* classes of 16 bytes: 16 .. 1024 */
#define CLS(n) (((n) + 15) / 16)
#define SLOTS 32
#define HDR 16
#define ARENA (1u << 28)

static char arena[ARENA] __attribute__((aligned(16)));
static size_t arena_used;
static unsigned long long rng = 88172645463325252ull;
static int inited, mode;                /* mode 0: ascending, 1: shuffled, 2: descending */
static struct { char *base; int order[SLOTS]; int next; } slab[NCLASS + 1];
static void *(*real_malloc)(size_t);
static void (*real_free)(void *);
static void *(*real_realloc)(void *, size_t);

static unsigned rnd(void) {
  rng ^= rng << 13; rng ^= rng >> 7; rng ^= rng << 17;
  return (unsigned)(rng >> 11);
}

static void init(void) {
  inited = 1;
  const char *s = getenv("SHUF_SEED");
  if (s && strcmp(s, "rev") == 0) {
    mode = 2;
  } else if (s && strtoull(s, 0, 10) != 0) {
    mode = 1;
    rng ^= strtoull(s, 0, 10) * 0x9E3779B97F4A7C15ull + 1;
  }
  real_malloc = dlsym(RTLD_NEXT, "malloc");
  real_free = dlsym(RTLD_NEXT, "free");
  real_realloc = dlsym(RTLD_NEXT, "realloc");
}

static int in_arena(const void *p) {
  return (const char *)p >= arena && (const char *)p < arena + ARENA;
}

static void *slab_alloc(size_t n) {
  int c = CLS(n);
  if (c == 0) c = 1;
  size_t slot = (size_t)c * 16 + HDR;
  if (slab[c].base == 0 || slab[c].next == SLOTS) {
    size_t bytes = slot * SLOTS;
    if (arena_used + bytes > ARENA) return 0;
    slab[c].base = arena + arena_used;
    arena_used += bytes;
    for (int i = 0; i < SLOTS; i++) slab[c].order[i] = (mode == 2) ? SLOTS - 1 - i : i;
    if (mode == 1) {
      for (int i = SLOTS - 1; i > 0; i--) {
        int j = rnd() % (i + 1);
        int t = slab[c].order[i]; slab[c].order[i] = slab[c].order[j]; slab[c].order[j] = t;
      }
    }
    slab[c].next = 0;
  }
  char *p = slab[c].base + (size_t)slab[c].order[slab[c].next++] * slot;
  *(size_t *)p = (size_t)c * 16;
  return p + HDR;
}

void *malloc(size_t n) {
  if (!inited) init();
  if (n <= NCLASS * 16) {
    void *p = slab_alloc(n);
    if (p) return p;
  }
  return real_malloc ? real_malloc(n) : 0;
}

void free(void *p) {
  if (!p || in_arena(p)) return;
  if (!inited) init();
  real_free(p);
}

void *calloc(size_t a, size_t b) {
  size_t n = a * b;
  if (b && n / b != a) return 0;
  void *p = malloc(n);
  if (p) memset(p, 0, n);
  return p;
}

void *realloc(void *p, size_t n) {
  if (!inited) init();
  if (!p) return malloc(n);
  if (in_arena(p)) {
    size_t old = *(size_t *)((char *)p - HDR);
    if (n <= old) return p;
    void *q = malloc(n);
    if (q) memcpy(q, p, old);
    return q;
  }
  return real_realloc(p, n);
}
