#!/usr/bin/env python3
"""Development driver (not registered): run only the scope / arity / cast part of C01 (vf/checks/_c01_scope.py).
    harness/c01_scope_dev.py [quick|thorough]
Evidence and replays go to $VERIF_OUT (default: a scratch directory, so /verif/evidence is never overwritten);
VERIF_REPO / VERIF_BUILD select the tree under test as tools/mutant.sh does (exit codes as ./check)."""
import json, os, shutil, sys, time
os.environ.setdefault("VERIF_OUT", "/tmp/c01scope/out")
sys.path.insert(0, os.path.dirname(os.path.dirname(os.path.abspath(__file__))))
from vf.common import Ctx, MachineryError, EXIT_MACHINERY
from vf.checks._c01_scope import run_part


def main():
    tier = sys.argv[1] if len(sys.argv) > 1 else "quick"
    ctx = Ctx("C01", tier)
    try:
        t0 = time.time()
        info = run_part(ctx, ctx.tmp)
        ctx.cov["evaluations"] = info["steps_compared"]
        ctx.cov["traces_validated_against_impl"] = info["behaviour_replays"]
        ctx.cov["distinct_nontrivial"] = info["distinct_calls"]
        ctx.cov["exhaustive"] = True
        ctx.cov["rule"] = "WrapCScope!SSem"
        print("scope part: %.0fs  %s" % (time.time() - t0, json.dumps({k: v for k, v in info.items() if k != "option_sets"})))
        print("  TLC " + ", ".join("%s %.0fs %d states" % (r["cfg"], r["wall_s"], r["generated"]) for r in ctx.cov["tlc_runs"]))
        for k, v in info["option_sets"].items():
            print("  %-40s %s" % (k, v))
        return ctx.finish()
    except MachineryError as e:
        print("MACHINERY-ERROR C01/scope: %s" % e, file=sys.stderr)
        return EXIT_MACHINERY
    finally:
        if not os.environ.get("VERIF_KEEP_TMP"):
            shutil.rmtree(ctx.tmp, ignore_errors=True)


if __name__ == "__main__":
    sys.exit(main())
