"""C01 wrapper driver (child process).  Executes resolved call scripts (vf/wraplib.py resolve) by
calling the generated wrappers THROUGH THE DATABASE ONLY: every wrapper is found by the C++ name of
its function in the database dump (vf/idbdump.py), chosen among the function's wrappers by the
parameter / return types and parameter names the database records, called by the wrapper name (or function-pointer
index) the database records, with a ctypes prototype built from the database's atomic types
(-c), or as a function of the imported extension module (-python).  Object state (st, bst, payload)
is read back through the published data members' getter wrappers and the accessor vf_tag(), base-class views through the upcast wrappers.

    python3 wrapc_drive.py <config.json>

Writes one JSON line per step {"b","i","ret","post":[[st,bst,tg]|null...]} (or {"b","i","err"}) to config["out"],
flushed after each step, plus {"dbcheck": ...} lines describing what the database says about the
wrapper variants of each function it used."""
import ctypes, json, os, sys, importlib.util

C = ctypes
OBJ_KINDS = ("objPtr", "objRef", "objVal", "constObjRef")
BASES = {"K0": [], "K1": ["K0"], "K2": ["K0"], "KB": [], "Mix": ["K0", "KB"], "K3": ["K0"]}


def has_this(s):
    return s["fk"] not in ("free", "static", "ctor")


def const_this(s):
    return s["fk"] in ("cmethod", "getter", "opIndex", "opCast", "opEq", "opBin")


class DriveError(Exception):
    pass


class Db:
    def __init__(self, dump):
        self.d = dump
        self.types = dump["types"]
        self.functions = dump["functions"]
        self.wrappers = dump["wrappers"]
        self.elements = dump["elements"]
        self.type_by_name = {}
        for i, t in self.types.items():
            if t["is_class"] or t["is_struct"]:
                self.type_by_name[t["scoped_name"]] = i
        self.global_fn = {}
        for f in dump["global_functions"]:
            fr = self.functions[str(f)]
            self.global_fn.setdefault(fr["name"], []).append(str(f))
        self._desc = {}

    def desc(self, ti):
        """structural description of a database type"""
        ti = str(ti)
        if ti in self._desc:
            return self._desc[ti]
        t = self.types.get(ti)
        if t is None:
            r = ("missing", ti)
        elif t["is_typedef"]:
            r = self.desc(t["wrapped_type"])
        elif t["is_atomic"]:
            tok = t["atomic_token"]
            if tok in (1, 8):
                size = "longlong" if (t["is_longlong"] or tok == 8) else "long" if t["is_long"] else "short" if t["is_short"] else ""
                r = ("int", bool(t["is_unsigned"]), size)
            elif tok == 5:
                r = ("char", "unsigned" if t["is_unsigned"] else "signed" if t["is_signed"] else "")
            else:
                r = ({2: "float", 3: "double", 4: "bool", 6: "void", 7: "string", 9: "null"}.get(tok, "atomic%d" % tok),)
        elif t["is_array"]:
            r = ("array", self.desc(t["wrapped_type"]), t["array_size"])
        elif t["is_wrapped"] and t["is_pointer"]:
            r = ("ptr", self.desc(t["wrapped_type"]))
        elif t["is_wrapped"] and t["is_const"]:
            r = ("const", self.desc(t["wrapped_type"]))
        elif t["is_enum"]:
            r = ("enum", t["scoped_name"])
        elif t["is_class"] or t["is_struct"]:
            r = ("class", t["scoped_name"])
        else:
            r = ("other", t["name"])
        self._desc[ti] = r
        return r


def ctype_of(d):
    """ctypes type for a database type description (the C calling convention of the wrapper)"""
    k = d[0]
    if k == "int":
        u, size = d[1], d[2]
        return {"": (C.c_int, C.c_uint), "short": (C.c_short, C.c_ushort), "long": (C.c_long, C.c_ulong),
                "longlong": (C.c_longlong, C.c_ulonglong)}[size][1 if u else 0]
    if k == "char":
        return {"signed": C.c_byte, "unsigned": C.c_ubyte, "": C.c_char}[d[1]]
    if k == "float":
        return C.c_float
    if k == "double":
        return C.c_double
    if k == "bool":
        return C.c_bool
    if k == "void":
        return None
    if k == "string":
        return C.c_char_p
    if k == "enum":
        # the query interface does not tell the underlying type of an enumeration (and reports enumerator values as
        # int): the two scoped enumerations of the generated header are sized as they are declared there
        return {"EnC": C.c_byte, "EnL": C.c_longlong}.get(d[1], C.c_int)
    if k == "array":
        return C.POINTER(ctype_of(d[1]))
    if k == "ptr":
        inner = d[1][1] if d[1][0] == "const" else d[1]
        if inner[0] == "char":
            return C.c_char_p
        return C.c_void_p
    raise DriveError("no C type for database type %r" % (d,))


def exp_desc(kind, fam, string_opt, ret=False):
    """what the database must say about a parameter / result of spec kind `kind`"""
    k0 = ("class", "K0_%d" % fam)
    t = {"i8": ("char", "signed"), "u8": ("char", "unsigned"), "i16": ("int", False, "short"), "u16": ("int", True, "short"),
         "i32": ("int", False, ""), "u32": ("int", True, ""), "i64": ("int", False, "longlong"), "u64": ("int", True, "longlong"),
         "long": ("int", False, "long"), "ulong": ("int", True, "long"), "f32": ("float",), "f64": ("double",),
         "bool": ("bool",), "enum": ("enum", "En"), "void": ("void",), "enumC": ("enum", "EnC"), "enumLL": ("enum", "EnL"),
         "arrI32": ("array", ("int", False, ""), 3), "arrF32": ("array", ("float",), 2)}.get(kind)
    if t:
        return t
    if kind == "cstr":
        return ("string",) if string_opt else ("ptr", ("const", ("char", "")))
    if kind in ("string", "strPtr"):
        return ("string",) if string_opt else None
    if kind == "arrObj":
        return ("ptr", ("class", "KB_%d" % fam))
    if kind in ("objPtr", "objRef", "objVal"):
        return ("ptr", k0)
    if kind == "constObjRef":
        return ("ptr", ("const", k0))
    raise DriveError(kind)


class Driver:
    def __init__(self, cfg):
        self.cfg = cfg
        self.backend = cfg["backend"]          # "c" | "python"
        self.string_opt = cfg["string"]
        self.db = Db(json.load(open(cfg["db"])))
        lib = json.load(open(cfg["lib"]))
        self.fns = {f["gid"]: f for f in lib["fns"]}
        self.behaviours = lib["behaviours"]
        self.out = open(cfg["out"], "a")
        self.callcache = {}
        self.checked = set()
        self.so = C.CDLL(cfg["so"]) if self.backend == "c" or cfg.get("so") else None
        self.mark = None
        if self.backend == "c":
            self.helper = self.so
            if cfg.get("fptrs"):
                self.so.vf_fptrs.restype = C.POINTER(C.c_void_p)
                self.fptrs = self.so.vf_fptrs()
                self.nfptrs = self.so.vf_nfptrs()
        else:
            spec = importlib.util.spec_from_file_location(cfg["module"], cfg["module_path"])
            self.mod = importlib.util.module_from_spec(spec)
            spec.loader.exec_module(self.mod)
            self.helper = C.CDLL(cfg["module_path"])
        self.helper.vf_log_mark.argtypes = [C.c_int, C.c_int]
        self.helper.vf_log_mark.restype = None

    def emit(self, rec):
        self.out.write(json.dumps(rec) + "\n")
        self.out.flush()

    # ---- database navigation ----------------------------------------------------------
    def wrappers_of(self, fidx):
        f = self.db.functions[str(fidx)]
        ws = f["c_wrappers"] if self.backend == "c" else f["python_wrappers"]
        return [(str(w), self.db.wrappers[str(w)]) for w in ws]

    def class_type(self, cxxcls):
        ti = self.db.type_by_name.get(cxxcls)
        if ti is None:
            raise DriveError("class %s is not in the database" % cxxcls)
        return ti, self.db.types[ti]

    def functions_named(self, fn):
        """database function indices for generated function fn"""
        s = fn["sig"]
        fk = s["fk"]
        if fn["cls"] is None:
            return self.db.global_fn.get(fn["cname"], [])
        ti, t = self.class_type(fn["cls"])
        if fk == "ctor":
            return [str(x) for x in t["constructors"]]
        if fk == "opCast":
            return [str(x) for x in t["casts"]]
        if fk in ("getter", "setter"):
            for e in t["elements"]:
                el = self.db.elements[str(e)]
                if el["name"] == fn["cname"]:
                    key = "getter" if fk == "getter" else "setter"
                    return [str(el[key])] if el["has_" + key] else []
            return []
        name = "operator []=" if fk == "opIndexRef" else fn["cname"]
        return [str(x) for x in t["methods"] if self.db.functions[str(x)]["name"] == name]

    def expected_params(self, fn, k):
        s = fn["sig"]
        fam = fn["fam"]
        out = []
        if has_this(s):
            c = ("class", fn["cls"])
            out.append(("ptr", ("const", c)) if const_this(s) else ("ptr", c))
        n = len(s["ps"]) - k
        for kind in s["ps"][:n]:
            out.append(exp_desc(kind, fam, self.string_opt))
        return out

    def expected_names(self, fn, k):
        """parameter names the database must record (the renderer names parameters after position and kind)"""
        s = fn["sig"]
        n = len(s["ps"]) - k
        if s["fk"] == "opIndexRef":     # the synthesized item-assignment function  operator []=(K i, const int &assign_val)
            return ["this", "a1_%s" % s["ps"][0], "assign_val"]
        return (["this"] if has_this(s) else []) + ["a%d_%s" % (i + 1, s["ps"][i]) for i in range(n)]

    def expected_ret(self, fn):
        s = fn["sig"]
        if s["fk"] == "ctor" or s["fk"] == "opAsg":
            return ("ptr", ("class", fn["cls"]))
        if s["fk"] == "setter":
            return ("void",)
        return exp_desc(s["ret"], fn["fam"], self.string_opt, ret=True)

    def find_wrapper(self, gid, k, via=None):
        """via: look the function up in (and call it through the wrapper of) the derived class `via` that overrides it"""
        key = (gid, k, via)
        if key in self.callcache:
            return self.callcache[key]
        fn = self.fns[gid]
        if via:
            fn = dict(fn, cls="%s_%d" % (via, fn["fam"]))
        s = fn["sig"]
        want_p = self.expected_params(fn, k)
        want_r = self.expected_ret(fn)
        want_n = self.expected_names(fn, k)
        cands = []
        for f in self.functions_named(fn):
            for wi, w in self.wrappers_of(f):
                if s["fk"] == "ctor" and w["is_copy_constructor"]:
                    continue
                cands.append((wi, w))
        hits = []
        for wi, w in cands:
            got_p = [self.db.desc(p["type"]) for p in w["parameters"]]
            got_r = self.db.desc(w["return_type"]) if w["has_return_value"] else ("void",)
            got_n = [p["name"] for p in w["parameters"]]
            # accessor wrappers of data members name their parameters themselves
            if got_p == want_p and got_r == want_r and (got_n == want_n or s["fk"] in ("getter", "setter")):
                hits.append((wi, w))
        if gid not in self.checked and not via:
            self.checked.add(gid)
            self.emit(dict(dbcheck=dict(
                gid=gid, scoped=(fn["cls"] + "::" if fn["cls"] else "") + fn["cname"], nd=s["nd"],
                variants=[dict(name=w["name"], params=[self.db.desc(p["type"]) for p in w["parameters"]],
                               names=[p["name"] for p in w["parameters"]],
                               this=[p["is_this"] for p in w["parameters"]],
                               optional=[p["is_optional"] for p in w["parameters"]],
                               ret=self.db.desc(w["return_type"]) if w["has_return_value"] else ("void",),
                               callable_by_name=w["is_callable_by_name"]) for wi, w in cands])))
        if len(hits) != 1:
            r = ("nowrapper", "database lists %d wrapper(s) matching %s%s %r %r -> %r among %d of %s" % (
                len(hits), (fn["cls"] + "::") if fn["cls"] else "", fn["cname"], want_p, want_n, want_r, len(cands), fn["cname"]))
        else:
            wi, w = hits[0]
            exp_this = [i == 0 and has_this(s) for i in range(len(w["parameters"]))]
            n = len(s["ps"])
            off = 1 if has_this(s) else 0
            exp_opt = [False] * off + [i >= n - s["nd"] for i in range(n - k)]
            flags = None
            if [p["is_this"] for p in w["parameters"]] != exp_this:
                flags = "is_this flags %r" % [p["is_this"] for p in w["parameters"]]
            elif [p["is_optional"] for p in w["parameters"]] != exp_opt:
                flags = "is_optional flags %r, expected %r" % ([p["is_optional"] for p in w["parameters"]], exp_opt)
            r = ("ok", self.bind(wi, w), flags)
        self.callcache[key] = r
        return r

    def bind(self, wi, w):
        """-> callable(list of canonical python values) -> raw result, plus result description"""
        pdesc = [self.db.desc(p["type"]) for p in w["parameters"]]
        rdesc = self.db.desc(w["return_type"]) if w["has_return_value"] else ("void",)
        if self.backend == "python":
            name = w["name"]
            f = getattr(self.mod, name, None)
            if f is None:
                raise DriveError("module has no function %s" % name)

            def call(args):
                return f(*[self.py_arg(d, a) for d, a in zip(pdesc, args)])
            return call, rdesc
        if self.cfg.get("fptrs"):
            idx = int(wi) - 1
            if not (0 <= idx < self.nfptrs) or not self.fptrs[idx]:
                raise DriveError("no function pointer for wrapper index %s" % wi)
            proto = C.CFUNCTYPE(ctype_of(rdesc), *[ctype_of(d) for d in pdesc])
            cf = proto(self.fptrs[idx])
        else:
            if not w["is_callable_by_name"]:
                raise DriveError("wrapper %s is not callable by name" % w["name"])
            cf = getattr(self.so, w["name"])
            cf.argtypes = [ctype_of(d) for d in pdesc]
            cf.restype = ctype_of(rdesc)

        def call(args):
            return cf(*[self.c_arg(d, a) for d, a in zip(pdesc, args)])
        return call, rdesc

    @staticmethod
    def c_arg(d, a):
        k = d[0]
        if k in ("float", "double"):
            return a / 8.0
        if k == "bool":
            return bool(a)
        if k == "string" or (k == "ptr" and (d[1][1] if d[1][0] == "const" else d[1])[0] == "char"):
            return a.encode("utf-8") if isinstance(a, str) else a
        if k == "ptr":
            return a or None
        if k == "array":
            et = ctype_of(d[1])
            return (et * d[2])(*[x / 8.0 if d[1][0] in ("float", "double") else x for x in a])
        return a

    @staticmethod
    def py_arg(d, a):
        k = d[0]
        if k in ("float", "double"):
            return a / 8.0
        if k == "bool":
            return bool(a)
        if k == "ptr" and not isinstance(a, str):
            return a or 0
        return a

    def canon_ret(self, rdesc, r):
        """raw result -> canonical value (objects stay handles)"""
        k = rdesc[0]
        if k == "void":
            return None
        if k in ("float", "double"):
            return r * 8.0 if r is not None else None
        if k == "bool":
            return int(bool(r)) if r is not None else None
        if k == "string" or (k == "ptr" and (rdesc[1][1] if rdesc[1][0] == "const" else rdesc[1])[0] == "char"):
            if isinstance(r, bytes):
                return r.decode("utf-8", "replace")
            return r
        if k == "char":
            return r if isinstance(r, int) else (ord(r) if r else None)
        if k == "ptr":
            return r or 0
        return r

    # ---- objects ------------------------------------------------------------------------
    def view(self, slot, base):
        """handle of the object in `slot` seen as its (direct) base class `base`, through the database's derivation"""
        o = self.slots[slot]
        if o["cls"] == base:
            return o["h"]
        if base in o["views"]:
            return o["views"][base]
        fam = self.fam
        ti, t = self.class_type("%s_%d" % (o["cls"], fam))
        bi, _ = self.class_type("%s_%d" % (base, fam))
        for dv in t["derivations"]:
            if str(dv["base"]) == bi:
                if dv["has_upcast"]:
                    ws = self.wrappers_of(dv["upcast"])
                    if len(ws) != 1:
                        raise DriveError("upcast function has %d wrappers" % len(ws))
                    call, rdesc = self.bind(*ws[0])
                    h = self.canon_ret(rdesc, call([o["h"]]))
                else:
                    h = o["h"]
                o["views"][base] = h
                return h
        raise DriveError("database has no derivation %s -> %s" % (o["cls"], base))

    def element_get(self, cxxcls, name, handle):
        ti, t = self.class_type(cxxcls)
        for e in t["elements"]:
            el = self.db.elements[str(e)]
            if el["name"] == name:
                if not el["has_getter"]:
                    raise DriveError("element %s::%s has no getter" % (cxxcls, name))
                key = ("get", cxxcls, name)
                if key not in self.callcache:
                    ws = self.wrappers_of(el["getter"])
                    if len(ws) != 1:
                        raise DriveError("getter of %s::%s has %d wrappers" % (cxxcls, name, len(ws)))
                    self.callcache[key] = self.bind(*ws[0])
                call, rdesc = self.callcache[key]
                return self.canon_ret(rdesc, call([handle])), rdesc
        raise DriveError("database has no element %s::%s" % (cxxcls, name))

    def method_get(self, cxxcls, name, handle, *args):
        """call the published accessor method `name` of class cxxcls"""
        key = ("method", cxxcls, name)
        if key not in self.callcache:
            ti, t = self.class_type(cxxcls)
            fs = [x for x in t["methods"] if self.db.functions[str(x)]["name"] == name]
            ws = [w for f in fs for w in self.wrappers_of(f)]
            if len(ws) != 1:
                raise DriveError("%s::%s has %d wrappers" % (cxxcls, name, len(ws)))
            self.callcache[key] = self.bind(*ws[0])
        call, rdesc = self.callcache[key]
        return self.canon_ret(rdesc, call([handle] + list(args)))

    def read_post(self):
        post = []
        for i in range(1, len(self.slots)):
            o = self.slots[i]
            if not o["live"]:
                post.append(None)
                continue
            st = bst = tg = 0
            if o["cls"] != "KB":
                h = self.view(i, "K0")
                st, _ = self.element_get("K0_%d" % self.fam, "st", h)
                tg = self.method_get("K0_%d" % self.fam, "vf_tag", h)
            if o["cls"] in ("KB", "Mix"):
                bst, _ = self.element_get("KB_%d" % self.fam, "bst", self.view(i, "KB"))
            post.append([st, bst, tg])
        return post

    def find_slot(self, handle, cls):
        """which live object does a returned `cls *` designate?"""
        if not handle:
            return 0
        for i in range(1, len(self.slots)):
            o = self.slots[i]
            if not o["live"]:
                continue
            if o["cls"] == cls or cls in BASES[o["cls"]]:
                if self.view(i, cls) == handle:
                    return i
        return -1

    def destroy(self, slot):
        o = self.slots[slot]
        f = getattr(self.helper, "vf_destroy_%s_%d" % (o["cls"], self.fam))
        f.argtypes = [C.c_void_p]
        f.restype = None
        f(o["h"])
        o["live"] = False

    # ---- steps --------------------------------------------------------------------------
    def arg_values(self, st):
        out = []
        for kind, a in zip(st["kinds"], st["args"]):
            if kind in OBJ_KINDS:
                out.append(self.view(a, "K0") if a else 0)
            else:
                out.append(a)
        return out

    def step(self, st):
        op = st["op"]
        if op in ("new", "call"):
            fn = self.fns[st["gid"]]
            s = fn["sig"]
            r = self.find_wrapper(st["gid"], st["k"], st.get("via"))
            if r[0] != "ok":
                raise DriveError(r[1])
            (call, rdesc), flags = r[1], r[2]
            if flags:
                raise DriveError("database flags of %s: %s" % (fn["cname"], flags))
            args = self.arg_values(st)
            if op == "call" and has_this(s):
                decl = st.get("via") or s["cls"]
                args = [self.view(st["this"], decl)] + args
            raw = self.canon_ret(rdesc, call(args))
            if op == "new":
                if not raw:
                    raise DriveError("constructor wrapper returned null")
                self.slots.append(dict(cls=st["cls"], h=raw, live=True, views={}))
                return None
            fk = s["fk"]
            if fk == "opAsg":
                return self.find_slot(raw, s["cls"])
            rk = s["ret"]
            if fk == "setter" and st["data_kind"] in ("arrI32", "arrF32"):
                # an array member has no getter wrapper: read it back through the published accessor
                acc = "vf_celli" if st["data_kind"] == "arrI32" else "vf_cellf"
                h = self.view(st["this"], "K0")
                return {"rb": [self.method_get("K0_%d" % self.fam, acc, h, i) for i in range(len(st["args"][0]))]}
            if fk == "setter":
                got, _ = self.element_get("K0_%d" % self.fam, "d_" + st["data_kind"], self.view(st["this"], "K0"))
                if st["data_kind"] == "objPtr":
                    got = self.find_slot(got, "K0")
                return {"rb": got}
            if fk == "opIndexRef":
                root = "KB" if s["cls"] == "KB" else "K0"
                return {"rb": self.method_get("%s_%d" % (root, self.fam), "vf_item", self.view(st["this"], root), st["item"])}
            if fk == "getter" and s["ret"] == "arrObj":
                if not raw:
                    raise DriveError("getter of the object array returned null")
                got, _ = self.element_get("KB_%d" % self.fam, "bst", raw)
                return got
            if rk == "objVal":
                if not raw:
                    raise DriveError("wrapper returned null for an object returned by value")
                self.slots.append(dict(cls="K0", h=raw, live=True, views={}))
                return len(self.slots) - 1
            if rk in ("objPtr", "objRef", "constObjRef"):
                return self.find_slot(raw, "K0")
            return raw
        if op == "copy":
            o = self.slots[st["frm"]]
            ti, t = self.class_type("%s_%d" % (o["cls"], self.fam))
            hits = [(wi, w) for f in t["constructors"] for wi, w in self.wrappers_of(f) if w["is_copy_constructor"]]
            if len(hits) != 1:
                raise DriveError("%d copy constructor wrappers for %s" % (len(hits), o["cls"]))
            call, rdesc = self.bind(*hits[0])
            h = self.canon_ret(rdesc, call([o["h"]]))
            self.slots.append(dict(cls=o["cls"], h=h, live=True, views={}))
            return None
        if op == "upcast":
            i = st["obj"]
            h = self.view(i, st["to"])
            name = "bst" if st["to"] == "KB" else "st"
            v, _ = self.element_get("%s_%d" % (st["to"], self.fam), name, h)
            # a downcast wrapper, where the database lists one, must lead back to the object
            o = self.slots[i]
            ti, t = self.class_type("%s_%d" % (o["cls"], self.fam))
            bi, _ = self.class_type("%s_%d" % (st["to"], self.fam))
            for dv in t["derivations"]:
                if str(dv["base"]) == bi and dv["has_downcast"]:
                    ws = self.wrappers_of(dv["downcast"])
                    if len(ws) == 1:
                        call, rdesc = self.bind(*ws[0])
                        back = self.canon_ret(rdesc, call([h]))
                        if back != o["h"]:
                            raise DriveError("downcast(upcast(o)) is not o")
            return v
        if op == "del":
            self.destroy(st["obj"])
            return None
        raise DriveError("bad op " + op)

    def run(self):
        skip = set(self.cfg.get("skip", []))
        for b in self.behaviours:
            if b["b"] in skip:
                continue
            self.fam = b["fam"]
            self.slots = [None]
            self.emit(dict(b=b["b"], begin=True))
            dead = False
            for i, st in enumerate(b["steps"]):
                self.helper.vf_log_mark(b["b"], i)
                try:
                    ret = self.step(st)
                    self.emit(dict(b=b["b"], i=i, ret=ret, post=self.read_post()))
                except DriveError as e:
                    self.emit(dict(b=b["b"], i=i, err=str(e)))
                    dead = True
                except Exception as e:          # ctypes.ArgumentError, TypeError / OverflowError from the module, ...
                    self.emit(dict(b=b["b"], i=i, err="%s: %s" % (type(e).__name__, e)))
                    dead = True
                if dead:
                    break       # the rest of this behaviour depends on the failed step
            for i in range(1, len(self.slots)):
                if self.slots[i]["live"]:
                    try:
                        self.destroy(i)
                    except Exception:
                        pass
            self.emit(dict(b=b["b"], end=True))
        self.emit(dict(done=True))


if __name__ == "__main__":
    Driver(json.load(open(sys.argv[1]))).run()
