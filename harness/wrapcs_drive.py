"""C01 scope part: wrapper driver (child process).  As harness/wrapc_drive.py (whose database navigation, binding
and value conversion it re-uses): every wrapper is found THROUGH THE DATABASE ONLY - by the scoped C++ name of
its class (na_3::P, Outer_3::Inner, ...) and the name of its function, chosen among the function's wrappers by
the parameter / return types (scoped class and enumeration names) and parameter names the database records.
Object state is read through the getter wrappers of the published data members st / rst, base-class parts
through the upcast wrappers the database lists for the derivation.

    python3 wrapcs_drive.py <config.json>
"""
import ctypes, json, os, sys
sys.path.insert(0, os.path.dirname(os.path.abspath(__file__)))
import wrapc_drive as D
from wrapc_drive import DriveError, has_this, const_this

C = ctypes
OBJ_KINDS = D.OBJ_KINDS
CLS_SEQ = ["AP", "BP", "API", "O", "OI", "L", "R", "D", "V"]
BASES = {"D": ["L", "R"], "V": ["L"]}


def derives(c, b):
    return c == b or b in BASES.get(c, [])


class SDriver(D.Driver):
    def __init__(self, cfg):
        D.Driver.__init__(self, cfg)
        self.names = json.load(open(cfg["lib"]))["names"]

    def cxx(self, c, fam=None):
        return self.names[str(self.fam if fam is None else fam)]["cls"][c]

    def kind_desc(self, kd, fam):
        k = kd["k"]
        if k == "senum":
            return ("enum", self.names[str(fam)]["enum"][kd["c"]])
        if k in OBJ_KINDS:
            c = ("class", self.cxx(kd["c"], fam))
            return ("ptr", ("const", c)) if k == "constObjRef" else ("ptr", c)
        return D.exp_desc(k, fam, self.string_opt)

    def expected_params(self, fn, k):
        s = fn["sig"]
        out = []
        if has_this(s):
            c = ("class", fn["cls"])
            out.append(("ptr", ("const", c)) if const_this(s) else ("ptr", c))
        for kd in s["ps"][:len(s["ps"]) - k]:
            out.append(self.kind_desc(kd, fn["fam"]))
        return out

    def expected_names(self, fn, k):
        s = fn["sig"]
        n = len(s["ps"]) - k
        return (["this"] if has_this(s) else []) + ["a%d_%s" % (i + 1, s["ps"][i]["k"]) for i in range(n)]

    def expected_ret(self, fn):
        s = fn["sig"]
        if s["fk"] == "ctor":
            return ("ptr", ("class", fn["cls"]))
        return self.kind_desc(s["ret"], fn["fam"])

    # ---- objects ------------------------------------------------------------------------
    def derivation(self, cls, base):
        ti, t = self.class_type(self.cxx(cls))
        bi, _ = self.class_type(self.cxx(base))
        for dv in t["derivations"]:
            if str(dv["base"]) == bi:
                return dv
        raise DriveError("database has no derivation %s -> %s" % (self.cxx(cls), self.cxx(base)))

    def view(self, slot, base):
        o = self.slots[slot]
        if o["cls"] == base:
            return o["h"]
        if base in o["views"]:
            return o["views"][base]
        dv = self.derivation(o["cls"], base)
        if dv["has_upcast"]:
            ws = self.wrappers_of(dv["upcast"])
            if len(ws) != 1:
                raise DriveError("upcast function has %d wrappers" % len(ws))
            call, rdesc = self.bind(*ws[0])
            h = self.canon_ret(rdesc, call([o["h"]]))
        else:
            h = o["h"]
        o["views"][base] = h
        return h

    def part(self, slot, base):
        """the published state member of class `base`, read through the object's handle for that class"""
        v, _ = self.element_get(self.cxx(base), "rst" if base == "R" else "st", self.view(slot, base))
        return v

    def read_post(self):
        post = []
        for i in range(1, len(self.slots)):
            c = self.slots[i]["cls"]
            st = self.part(i, "L" if c in ("D", "V") else c) if c != "R" else 0
            rst = self.part(i, "R") if c in ("R", "D") else 0
            post.append([st, rst, 0])
        return post

    def find_slot(self, handle, cls):
        if not handle:
            return 0
        for i in range(1, len(self.slots)):
            if derives(self.slots[i]["cls"], cls) and self.view(i, cls) == handle:
                return i
        return -1

    def destroy(self, slot):
        o = self.slots[slot]
        f = getattr(self.helper, "vfs_destroy_%d_%d" % (CLS_SEQ.index(o["cls"]) + 1, self.fam))
        f.argtypes = [C.c_void_p]
        f.restype = None
        f(o["h"])
        o["live"] = False

    def arg_values(self, st):
        out = []
        for kd, a in zip(st["kinds"], st["args"]):
            if kd["k"] in OBJ_KINDS:
                out.append(self.view(a, kd["c"]) if a else 0)      # a derived object where a base is expected: upcast
            else:
                out.append(a)
        return out

    def step(self, st):
        op = st["op"]
        if op in ("new", "call"):
            fn = self.fns[st["gid"]]
            s = fn["sig"]
            r = self.find_wrapper(st["gid"], st["k"])
            if r[0] != "ok":
                raise DriveError(r[1])
            (call, rdesc), flags = r[1], r[2]
            if flags:
                raise DriveError("database flags of %s: %s" % (fn["cname"], flags))
            args = self.arg_values(st)
            if op == "call" and has_this(s):
                args = [self.view(st["this"], s["cls"])] + args
            raw = self.canon_ret(rdesc, call(args))
            if op == "new":
                if not raw:
                    raise DriveError("constructor wrapper returned null")
                self.slots.append(dict(cls=st["cls"], h=raw, live=True, views={}))
                return None
            rk = s["ret"]
            if rk["k"] == "objVal":
                if not raw:
                    raise DriveError("wrapper returned null for an object returned by value")
                self.slots.append(dict(cls=rk["c"], h=raw, live=True, views={}))
                return len(self.slots) - 1
            if rk["k"] in OBJ_KINDS:
                return self.find_slot(raw, rk["c"])
            return raw
        if op == "upcast":
            i = st["obj"]
            o = self.slots[i]
            h = self.view(i, st["to"])
            v = self.part(i, st["to"])
            dv = self.derivation(o["cls"], st["to"])
            back = None
            if dv["has_downcast"]:
                ws = self.wrappers_of(dv["downcast"])
                if len(ws) != 1:
                    raise DriveError("downcast function has %d wrappers" % len(ws))
                call, rdesc = self.bind(*ws[0])
                back = self.canon_ret(rdesc, call([h])) == o["h"]
            return dict(st=v, has_upcast=bool(dv["has_upcast"]), has_downcast=bool(dv["has_downcast"]), back=back)
        raise DriveError("bad op " + op)


if __name__ == "__main__":
    SDriver(json.load(open(sys.argv[1]))).run()
