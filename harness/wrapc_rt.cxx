// C01 runtime: the ndjson call log of the instrumented library bodies (see wrapc_rt.h).
#include "wrapc_rt.h"

namespace vfrt {
FILE *logfile() {
  static FILE *f = 0;
  static bool tried = false;
  if (!tried) {
    tried = true;
    const char *p = getenv("VF_LOG");
    if (p && *p) f = fopen(p, "a");
  }
  return f;
}
void json_str(FILE *f, const std::string &s) {
  fputc('"', f);
  for (unsigned char c : s) {
    if (c == '"' || c == '\\') { fputc('\\', f); fputc(c, f); }
    else if (c < 0x20 || c == 0x7f) fprintf(f, "\\u%04x", c);      // bytes >= 0x80 as they are (UTF-8)
    else fputc(c, f);
  }
  fputc('"', f);
}
}

extern "C" void vf_log_mark(int b, int i) {
  FILE *f = vfrt::logfile();
  if (f) { fprintf(f, "{\"mark\":[%d,%d]}\n", b, i); fflush(f); }
}
