"""C02 replay driver: runs inside a child interpreter (a crash of the extension module kills only
this process; the parent sees the signal and the last flushed line).

    python c02_driver.py <module dir> <script.json> <out.ndjson>

script: {"module": name, "mode": "dispatch"|"objects"|"names", ...}.  One JSON line is written
and flushed BEFORE each step ({"at": ...}) and after it (the observation), so the parent knows
which step killed the interpreter.  The driver only observes; all comparing is done by the
parent against the values carried by the TLC dump."""
import gc, json, sys

INTV = [None, -2**63 - 1, -2**63, -2**31 - 1, -2**31, -32769, -32768, -129, -128, -1, 0, 1, 127, 128, 255, 256,
        32767, 32768, 65535, 65536, 2**31 - 1, 2**31, 2**32 - 1, 2**32, 2**63 - 1, 2**63, 2**64 - 1, 2**64]
STR = "aéz"


def main():
    moddir, script, outp = sys.argv[1:4]
    sys.path.insert(0, moddir)
    sc = json.load(open(script))
    out = open(outp, "w")

    def emit(rec):
        out.write(json.dumps(rec) + "\n")
        out.flush()

    emit({"at": "import"})
    mod = __import__(sc["module"])
    emit({"imported": True})
    if sc["mode"] == "dispatch":
        dispatch(mod, sc, emit)
    elif sc["mode"] == "objects":
        objects(mod, sc, emit)
    elif sc["mode"] == "helpers":
        helpers(mod, sc, emit)
    elif sc["mode"] == "names":
        names(mod, sc, emit)
    elif sc["mode"] == "seqitem":
        seqitem(mod, sc, emit)
    emit({"done": True})
    out.close()


def owner(w):
    return [bool(w.this_ownership), bool(w.this_const)]


FAMILY = [dict(A="A", B="B", D="D", C="C"), dict(A="Zed", B="Mid", D="Alf", C="Cee")]


def dispatch(mod, sc, emit):
    P = mod.Probe
    insts = ["iA", "iB", "iD", "iC", "kA", "kB"]
    fixed, ids, own0 = [], [], []
    for f in FAMILY:
        A, B, D, C = (getattr(mod, f[k]) for k in "ABDC")
        # fresh (unshared) objects, so that reference count deltas are attributable to the call
        fx = {"float": float("2.5"), "bool": True, "str": "".join(["a", "\u00e9", "z"]), "bytes": bytes(bytearray(b"by")),
              "none": None, "wrong": object(),
              "iA": A(), "iB": B(), "iD": D(), "iC": C(), "kA": A.cref(), "kB": B.cref()}
        d = {k: fx[k].get_id() for k in insts}
        d.update(A_cref=A.cref().get_id(), A_gref=A.gref().get_id(), B_cref=B.cref().get_id(), B_gref=B.gref().get_id(),
                 D_cref=D.cref().get_id(), D_gref=D.gref().get_id())
        fixed.append(fx)
        ids.append(d)
        own0.append({k: owner(fx[k]) for k in insts})
    emit({"ids": ids, "own": own0})
    P.take_log()
    NK = sc.get("ncounts", sc["nclasses"] * len(FAMILY))
    co = {"iM": mod.M(), "iT": mod.T(), "iE": mod.E(), "iW": mod.W()}
    for fx in fixed:
        fx.update(co)
    for st in sc["sets"]:
        cls = getattr(mod, "S%d" % st["id"])
        fx, o0 = fixed[st["fam"]], own0[st["fam"]]
        if st["kind"] == "method":
            objs = {"nc": cls(), "c": cls.cref()}
        else:
            objs = {"na": cls}
        P.take_log()
        for n, (selftok, argtoks, kws) in enumerate(st["calls"]):
            emit({"at": [st["id"], n]})
            args = [int(str(INTV[t[1]])) if t[0] == "int" else fx[t[0]] for t in argtoks]
            # small ints, None and True are shared with the interpreter's own activity: not tracked
            track = [not (a is None or a is True or (type(a) is int and -6 < a < 257)) for a in args]
            rc0 = [sys.getrefcount(a) for a in args]
            pos = [a for a, k in zip(args, kws) if not k]
            kwd = {k: a for a, k in zip(args, kws) if k}
            live0 = [P.live(k) for k in range(NK)]
            tgt = objs[selftok]
            exc = None
            ret = None
            try:
                ret = tgt.f(*pos, **kwd)
            except BaseException as e:          # noqa
                exc = type(e).__name__
                msg = str(e)[:120]
            log = P.take_log()
            kwd = pos = None
            rc1 = [sys.getrefcount(a) for a in args]
            live1 = [P.live(k) for k in range(NK)]
            rec = {"s": st["id"], "c": n, "exc": exc, "log": log,
                   "drc": [(b - a) if t else 0 for a, b, t in zip(rc0, rc1, track)],
                   "dlive": [b - a for a, b in zip(live0, live1)]}
            if exc is None:
                rec["ret"] = ret if isinstance(ret, (int, float, str, bool)) or ret is None else repr(type(ret))
                rec["rett"] = type(ret).__name__
            else:
                rec["msg"] = msg
            own1 = {k: owner(fx[k]) for k in insts}
            if own1 != o0:
                rec["own_changed"] = own1
            emit(rec)
            ret = None
        objs = None
        gc.collect()


# ------------------------------------------------------------------------------------------
def probe_empty(mod, e, other):
    """name -> outcome of using a wrapper that has no C++ object ("ok:<repr>" or the exception type)"""
    import copy
    N = mod.Node
    P = {
        "const0 get_id": lambda: e.get_id(), "const0 peek": lambda: e.peek(), "const1 get_val": lambda: e.get_val(0),
        "const make": lambda: e.make(), "const cchild": lambda: e.cchild(), "const get_copy": lambda: e.get_copy(0),
        "nonconst0 touch": lambda: e.touch(), "nonconst child": lambda: e.child(), "nonconst me": lambda: e.me(),
        "nonconst2 set_val": lambda: e.set_val(0, 1), "nonconst1 look": lambda: e.look(e),
        "static global_ptr": lambda: type(e.global_ptr()).__name__,
        "property get": lambda: e.touched, "property set": lambda: setattr(e, "touched", 1),
        "operator +": lambda: e + 1, "operator ==": lambda: e == e, "len": lambda: len(e), "item": lambda: e[0],
        "seq property item": lambda: e.vals[0], "seq property len": lambda: len(e.vals),
        "seq property set": lambda: e.mvals.__setitem__(0, 1), "map property item": lambda: e.named["a"],
        "map property set": lambda: e.mnamed.__setitem__("a", 1), "make_seq": lambda: e.get_vals(),
        "bound method": lambda: (e.get_val)(1), "copy": lambda: copy.copy(e), "bits": lambda: owner(e) + [e.this],
    }
    if other is not None:
        P["as argument"] = lambda: other.look(e)
        P["as == operand"] = lambda: other == e
    out = {}
    for name, f in sorted(P.items()):
        try:
            out[name] = "ok:" + repr(f())
        except BaseException as ex:          # noqa
            out[name] = type(ex).__name__
    return out


Unchained = None


def objects(mod, sc, emit):
    """object histories: every history is a list of steps over wrapper slots w0..; after every
    step the ownership bits of every live wrapper and the instance counters are reported."""
    global Unchained
    P = mod.Probe
    N = mod.Node

    class Unchained(N):           # a Python subclass whose __init__ does not call the base __init__
        def __init__(self):
            pass
    for h in sc["histories"]:
        emit({"at": ["h", h["id"]]})
        P.reset()
        base = [P.made(), P.died()]
        w = {}
        obs = []
        for st in h["steps"]:
            step, usable = st["do"], st["usable"]
            op, a = step[0], step[1:]
            exc = None
            try:
                if op == "PyConstruct":
                    w[a[0]] = N()
                elif op == "NewEmpty":
                    # a wrapper without a C++ object: both ways of getting one, alternating
                    w[a[0]] = N.__new__(N) if h["id"] % 2 == 0 else Unchained()
                elif op in ("Init", "ReInit"):
                    N.__init__(w[a[0]])
                elif op == "ReturnByValue":
                    w[a[0]] = w[a[1]].make()
                elif op == "ReturnBorrowed":
                    w[a[0]] = w[a[1]].child()
                elif op == "ReturnStatic":
                    w[a[0]] = N.global_ptr()
                elif op == "ReturnConstRef":
                    w[a[0]] = w[a[1]].cchild()
                elif op == "ReturnThis":
                    w[a[0]] = w[a[1]].me()
                elif op == "PassToCpp":
                    w[a[0]].look(w[a[1]])
                elif op == "CallNonConst":
                    w[a[0]].touch()
                elif op == "CallConst":
                    w[a[0]].peek()
                elif op == "DropWrapper":
                    del w[a[0]]
            except BaseException as e:          # noqa
                exc = type(e).__name__
            P.take_log()
            rec = {"exc": exc, "made": P.made() - base[0], "died": P.died() - base[1],
                   "w": {k: owner(v) + ([v.get_id(), v.get_touched()] if k in usable else [None, None])
                         for k, v in sorted(w.items())}}
            # every use of a wrapper without object must raise an ordinary exception and change nothing
            if st.get("empty"):
                other = next((w[k] for k in usable if k in w), None)
                rec["probes"] = {k: probe_empty(mod, w[k], other) for k in st["empty"] if k in w}
                other = None
                rec["after_probes"] = [P.made() - base[0], P.died() - base[1]]
            obs.append(rec)
        w = None
        gc.collect()
        emit({"h": h["id"], "obs": obs, "end": [P.made() - base[0], P.died() - base[1]], "dlog": P.take_dlog()})


PROP = {"seq": "vals", "mseq": "mvals", "copies": "copies", "map": "named", "mmap": "mnamed", "bound": "get_val"}


def helpers(mod, sc, emit):
    """histories over wrappers AND the helper objects the runtime creates (PyObjectsH).  After every
    step: ownership bits / identity / reference count (relative to its creation) of every usable
    wrapper, the instance counters, and read-only probes on every usable helper, each with the
    counter and reference-count deltas it caused."""
    P = mod.Probe
    N = mod.Node
    for hst in sc["histories"]:
        emit({"at": ["h", hst["id"]]})
        P.reset()
        pn = N()                      # the needle of the search probes (not part of the history)
        base = [P.made(), P.died()]
        off = [0, 0]                  # constructions / destructions caused by probes and temporaries
        w, h, rc0 = {}, {}, {}
        obs = []

        def counters():
            return [P.made() - base[0] - off[0], P.died() - base[1] - off[1]]

        def tmp_value(x):
            """value of an item; a by-value Node item is a temporary: read it and let it go"""
            if isinstance(x, N):
                m0, d0 = P.made(), P.died()
                v = x.get_val(0)
                del x
                off[0] += 1           # it was constructed by the operation that returned it
                off[1] += P.died() - d0
                return v
            return x

        for st in hst["steps"]:
            op, a, b = st["op"], st["a"], st["b"]
            exc, val = None, None
            try:
                if op == "PyConstruct":
                    w[a] = N()
                    rc0[a] = sys.getrefcount(w[a])
                elif op == "ReturnBorrowed":
                    w[a] = w[b].child()
                    rc0[a] = sys.getrefcount(w[a])
                elif op == "ReturnConstRef":
                    w[a] = w[b].cchild()
                    rc0[a] = sys.getrefcount(w[a])
                elif op == "DropWrapper":
                    del w[a]
                elif op == "EvalProperty":
                    h[a] = getattr(w[b], PROP[st["kind"]])
                elif op == "EvalKeys":
                    h[a] = h[b].keys()
                elif op == "Iter":
                    h[a] = iter(h[b])
                elif op == "IterNext":
                    val = tmp_value(next(h[a]))
                elif op == "SetItem":
                    if st["kind"] in ("map", "mmap"):
                        h[a]["a"] = st["val"]
                    else:
                        h[a][0] = st["val"]
                elif op == "DropHelper":
                    del h[a]
            except BaseException as e:          # noqa
                exc = type(e).__name__
            rec = {"exc": exc, "val": val, "cnt": counters(),
                   "w": {k: owner(w[k]) + [w[k].get_id(), sys.getrefcount(w[k]) - rc0[k], list(w[k].get_vals())]
                         for k in st["usable_w"] if k in w}}
            probes = {}
            for k, kind, ro in st["usable_h"]:
                if k not in h:
                    continue
                x = h[k]
                r = {}
                c0 = [P.made(), P.died()]
                rcs0 = {q: sys.getrefcount(w[q]) for q in st["usable_w"] if q in w}
                try:
                    if kind in ("seq", "mseq", "copies"):
                        r["len"] = len(x)
                        r["items"] = [tmp_value(x[i]) for i in range(3)]
                        if kind == "copies":
                            r["search"] = [pn in x, x.count(pn)]
                            try:
                                x.index(pn)
                                r["search"].append("found")
                            except ValueError:
                                r["search"].append("ValueError")
                        else:
                            r["search"] = [1002 in x, x.count(1001), x.index(1002)]
                    elif kind in ("map", "mmap"):
                        r["len"] = len(x)
                        r["items"] = [x["a"], x.get("b"), x.get("z", 7)]
                        r["has"] = ["a" in x, "z" in x]
                        r["views"] = [list(x.keys()), list(x.values()), [list(t) for t in x.items()]]
                        try:
                            x["z"]
                            r["missing"] = None
                        except BaseException as e:          # noqa
                            r["missing"] = type(e).__name__
                    elif kind == "keys":
                        r["len"] = len(x)
                        r["items"] = [x[i] for i in range(3)]
                        r["has"] = ["a" in x, "z" in x]
                    elif kind == "bound":
                        r["items"] = [x(0), x(1), x(2)]
                    if ro and kind != "bound":
                        try:
                            if kind in ("map", "mmap"):
                                x["a"] = 5
                            else:
                                x[0] = 5
                            r["ro"] = None
                        except BaseException as e:          # noqa
                            r["ro"] = type(e).__name__
                except BaseException as e:          # noqa
                    r["exc"] = type(e).__name__ + ": " + str(e)[:80]
                x = None
                c1 = [P.made(), P.died()]
                # temporaries accounted by tmp_value are already in off; what remains is the probe's own
                r["made"], r["died"] = c1[0] - c0[0], c1[1] - c0[1]
                r["drc"] = {q: sys.getrefcount(w[q]) - v for q, v in rcs0.items()}
                probes[k] = r
            # probes (and their leaks, if any) must not disturb the accounting of the history
            mk = [P.made() - base[0], P.died() - base[1]]
            off[0], off[1] = mk[0] - rec["cnt"][0], mk[1] - rec["cnt"][1]
            rec["probes"] = probes
            obs.append(rec)
        w = h = x = None
        gc.collect()
        emit({"h": hst["id"], "obs": obs, "end": counters(), "dlog": P.take_dlog()})
        pn = None


def names(mod, sc, emit):
    res = {"module": sorted(n for n in dir(mod) if not n.startswith("__"))}
    for cname in sc["classes"]:
        c = mod
        ok = True
        for part in cname.split("."):
            if not hasattr(c, part):
                ok = False
                break
            c = getattr(c, part)
        res[cname] = sorted(n for n in dir(c) if not (n.startswith("__") and n.endswith("__") and n in dir(object))) if ok else None
    emit({"names": res})
    vals = {}
    for expr in sc.get("evals", []):
        try:
            vals[expr] = repr(eval(expr, {"m": mod}))
        except BaseException as e:          # noqa
            vals[expr] = "EXC " + type(e).__name__ + " " + str(e)[:80]
    emit({"evals": vals})


def seqitem(mod, sc, emit):
    """histories of o[i] / o[i] = v (spec PySeqItem) on a fresh IVec(n) per history; after every step the
    cells are read back through a plain C++ accessor (raw(k), k = -3 .. n+2: items and guard cells)."""
    for hi, h in enumerate(sc["hists"]):
        emit({"at": hi})
        o = mod.IVec(h["n0"])
        tgt = {"opidx": o, "seqprop": o.cells, "roidx": mod.RVec(h["n0"]) if h["kind"] == "roidx" else None}[h["kind"]]
        steps = []
        try:
            ln = len(tgt)
        except BaseException as e:      # noqa
            ln = "EXC " + type(e).__name__
        for op in h["ops"]:
            try:
                if op["op"] == "get":
                    r = tgt[op["i"]]
                elif op["op"] == "del":
                    del tgt[op["i"]]
                    r = 0
                else:
                    tgt[op["i"]] = op["v"]
                    r = 0
            except BaseException as e:      # noqa
                r = "EXC " + type(e).__name__
            src = tgt if h["kind"] == "roidx" else o
            steps.append([r, [src.raw(k) for k in range(-3, h["n0"] + 3)]])
        emit({"h": hi, "len": ln, "steps": steps})


if __name__ == "__main__":
    main()
