"""C02 replay driver: runs inside a child interpreter (a crash of the extension module kills only
this process; the parent sees the signal and the last flushed line).

    python c02_driver.py <module dir> <script.json> <out.ndjson>

script: {"module": name, "mode": "dispatch"|"objects"|"names", ...}.  One JSON line is written
and flushed BEFORE each step ({"at": ...}) and after it (the observation), so the parent knows
which step killed the interpreter.  The driver only observes; all comparing is done by the
parent against the values carried by the TLC dump."""
import gc, json, sys

INTV = [None, -2**63 - 1, -2**63, -2**31 - 1, -2**31, -32769, -32768, -129, -128, -1, 0, 1, 127, 128, 255, 256,
        32767, 32768, 65535, 65536, 2**31 - 1, 2**31, 2**32 - 1, 2**32, 2**63 - 1, 2**63, 2**64 - 1, 2**64]
STR = "aéz"


def main():
    moddir, script, outp = sys.argv[1:4]
    sys.path.insert(0, moddir)
    sc = json.load(open(script))
    out = open(outp, "w")

    def emit(rec):
        out.write(json.dumps(rec) + "\n")
        out.flush()

    emit({"at": "import"})
    mod = __import__(sc["module"])
    emit({"imported": True})
    if sc["mode"] == "dispatch":
        dispatch(mod, sc, emit)
    elif sc["mode"] == "objects":
        objects(mod, sc, emit)
    elif sc["mode"] == "names":
        names(mod, sc, emit)
    emit({"done": True})
    out.close()


def owner(w):
    return [bool(w.this_ownership), bool(w.this_const)]


def dispatch(mod, sc, emit):
    P = mod.Probe
    # fresh (unshared) objects, so that reference count deltas are attributable to the call
    fixed = {"float": float("2.5"), "bool": True, "str": "".join(["a", "\u00e9", "z"]), "bytes": bytes(bytearray(b"by")),
             "none": None, "wrong": object(),
             "iA": mod.A(), "iB": mod.B(), "iD": mod.D(), "iC": mod.C(), "kA": mod.A.cref(), "kB": mod.B.cref()}
    insts = ["iA", "iB", "iD", "iC", "kA", "kB"]
    ids = {k: fixed[k].get_id() for k in insts}
    ids["A_cref"] = mod.A.cref().get_id()
    ids["A_gref"] = mod.A.gref().get_id()
    ids["B_cref"] = mod.B.cref().get_id()
    ids["B_gref"] = mod.B.gref().get_id()
    own0 = {k: owner(fixed[k]) for k in insts}
    emit({"ids": ids, "own": own0})
    P.take_log()
    NK = sc["nclasses"]
    for st in sc["sets"]:
        cls = getattr(mod, "S%d" % st["id"])
        if st["kind"] == "method":
            objs = {"nc": cls(), "c": cls.cref()}
        else:
            objs = {"na": cls}
        P.take_log()
        for n, (selftok, argtoks) in enumerate(st["calls"]):
            emit({"at": [st["id"], n]})
            args = [int(str(INTV[t[1]])) if t[0] == "int" else fixed[t[0]] for t in argtoks]
            # small ints, None and True are shared with the interpreter's own activity: not tracked
            track = [not (a is None or a is True or (type(a) is int and -6 < a < 257)) for a in args]
            rc0 = [sys.getrefcount(a) for a in args]
            live0 = [P.live(k) for k in range(NK)]
            tgt = objs[selftok]
            exc = None
            ret = None
            try:
                ret = tgt.f(*args)
            except BaseException as e:          # noqa
                exc = type(e).__name__
                msg = str(e)[:120]
            log = P.take_log()
            rc1 = [sys.getrefcount(a) for a in args]
            live1 = [P.live(k) for k in range(NK)]
            rec = {"s": st["id"], "c": n, "exc": exc, "log": log,
                   "drc": [(b - a) if t else 0 for a, b, t in zip(rc0, rc1, track)],
                   "dlive": [b - a for a, b in zip(live0, live1)]}
            if exc is None:
                rec["ret"] = ret if isinstance(ret, (int, float, str, bool)) or ret is None else repr(type(ret))
                rec["rett"] = type(ret).__name__
            else:
                rec["msg"] = msg
            own1 = {k: owner(fixed[k]) for k in insts}
            if own1 != own0:
                rec["own_changed"] = own1
            emit(rec)
            ret = None
        objs = None
        gc.collect()


# ------------------------------------------------------------------------------------------
def objects(mod, sc, emit):
    """object histories: every history is a list of steps over wrapper slots w0..; after every
    step the ownership bits of every live wrapper and the instance counters are reported."""
    P = mod.Probe
    N = mod.Node
    for h in sc["histories"]:
        emit({"at": ["h", h["id"]]})
        P.reset()
        base = [P.made(), P.died()]
        w = {}
        obs = []
        for st in h["steps"]:
            step, usable = st["do"], st["usable"]
            op, a = step[0], step[1:]
            exc = None
            try:
                if op == "PyConstruct":
                    w[a[0]] = N()
                elif op == "ReturnByValue":
                    w[a[0]] = w[a[1]].make()
                elif op == "ReturnBorrowed":
                    w[a[0]] = w[a[1]].child()
                elif op == "ReturnStatic":
                    w[a[0]] = N.global_ptr()
                elif op == "ReturnConstRef":
                    w[a[0]] = w[a[1]].cchild()
                elif op == "ReturnThis":
                    w[a[0]] = w[a[1]].me()
                elif op == "PassToCpp":
                    w[a[0]].look(w[a[1]])
                elif op == "CallNonConst":
                    w[a[0]].touch()
                elif op == "CallConst":
                    w[a[0]].peek()
                elif op == "DropWrapper":
                    del w[a[0]]
            except BaseException as e:          # noqa
                exc = type(e).__name__
            P.take_log()
            obs.append({"exc": exc, "made": P.made() - base[0], "died": P.died() - base[1],
                        "w": {k: owner(v) + ([v.get_id(), v.get_touched()] if k in usable else [None, None])
                              for k, v in sorted(w.items())}})
        w = None
        gc.collect()
        emit({"h": h["id"], "obs": obs, "end": [P.made() - base[0], P.died() - base[1]], "dlog": P.take_dlog()})


def names(mod, sc, emit):
    res = {"module": sorted(n for n in dir(mod) if not n.startswith("__"))}
    for cname in sc["classes"]:
        c = mod
        ok = True
        for part in cname.split("."):
            if not hasattr(c, part):
                ok = False
                break
            c = getattr(c, part)
        res[cname] = sorted(n for n in dir(c) if not (n.startswith("__") and n.endswith("__") and n in dir(object))) if ok else None
    emit({"names": res})
    vals = {}
    for expr in sc.get("evals", []):
        try:
            vals[expr] = repr(eval(expr, {"m": mod}))
        except BaseException as e:          # noqa
            vals[expr] = "EXC " + type(e).__name__ + " " + str(e)[:80]
    emit({"evals": vals})


if __name__ == "__main__":
    main()
