// C01 scope part: runtime of the generated bodies (specs/WrapCScope.tla: SH, SMix, SWeight with six
// primes and hashes reduced modulo HMod).  Uses the string table, H32 / H64 / HF / HS, Encode and the
// call log of wrapc_rt.h.  spec != native is a MachineryError in vf/checks/_c01_scope.py.
#ifndef WRAPCS_RT_H
#define WRAPCS_RT_H
#include "wrapc_rt.h"

namespace vfs {
static const unsigned HMod = 9973u;
struct Call {
  long long sum; long wsum; int pos; FILE *f;
  Call(int gid, long id, long thisst) : sum(id + 17LL * thisst), wsum(1), pos(0), f(vfrt::logfile()) {
    if (f) fprintf(f, "{\"g\":%d,\"f\":%ld,\"this\":%ld,\"args\":[", gid, id, thisst);
  }
  void add(uint32_t h) { static const int P[6] = {101, 211, 307, 401, 503, 601}; uint32_t hm = h % HMod; sum += (long long)P[pos] * hm; wsum += hm % 7; ++pos; }
  void sep() { if (f && pos) fputc(',', f); }
  void s(long long v) { sep(); if (f) fprintf(f, "%lld", v); add(vfrt::H32((uint32_t)(int32_t)v)); }
  void u(unsigned long long v) { sep(); if (f) fprintf(f, "%llu", v); add(vfrt::H32((uint32_t)v)); }
  void s64(long long v) { sep(); if (f) fprintf(f, "%lld", v); add(vfrt::H64((uint64_t)v)); }
  void u64(unsigned long long v) { sep(); if (f) fprintf(f, "%llu", v); add(vfrt::H64((uint64_t)v)); }
  void fl(double x) { sep(); if (f) fprintf(f, "%.17g", x * 8.0); add(vfrt::HF(x)); }
  void b(bool v) { sep(); if (f) fprintf(f, "%d", v ? 1 : 0); add(v ? 2u : 1u); }
  void str(const char *p) { std::string t(p ? p : "<null>"); sep(); if (f) vfrt::json_str(f, t); add(vfrt::HS(t)); }
  void str(const std::string &t) { sep(); if (f) vfrt::json_str(f, t); add(vfrt::HS(t)); }
  // an object argument: the state of the part the parameter's class names
  void obj(bool null, long part) { sep(); if (f) { if (null) fputs("null", f); else fprintf(f, "{\"part\":%ld}", part); } add(null ? 40000u : (uint32_t)part); }
  long mix() { if (f) { fputs("]}\n", f); fflush(f); f = 0; } return (long)sum; }
  long weight() const { return wsum; }
};
}
#endif
