/*
 * faultio.so -- LD_PRELOAD fault injector / call logger for the output channels of
 * interrogate and interrogate_module (property C19, spec ToolRun).
 *
 * Environment:
 *   FAULTIO_TARGETS  "oc=/abs/or/suffix/path;od=...;oh=..."   a file is channel <ch> when the
 *                    path given to open ends with the text after '=' (exact suffix match)
 *   FAULTIO_FAULTS   "ch:op:k:errno[,ch:op:k:errno...]"   at most one entry per channel
 *                    op = open        the open of the channel fails with errno (k ignored)
 *                         write       only the k-th write(2)/writev(2) on the channel fails
 *                         writefrom   the k-th and every later write on the channel fail
 *                         close       the close of the channel reports errno (the descriptor
 *                                     is really closed, as close(2) does on error)
 *   FAULTIO_LOG      ndjson file (opened O_APPEND for every line, so it can be the same
 *                    file as $INTERROGATE_VERIF_TRACE: one totally ordered per-process trace)
 *
 * Every intercepted call on a channel is logged after it happened:
 *   {"e":"io","op":"open","ch":"oc","ok":1,"errno":0}
 *   {"e":"io","op":"write","ch":"oc","k":3,"n":8191,"ok":0,"errno":28}
 *   {"e":"io","op":"close","ch":"oc","ok":1,"errno":0}
 * libstdc++'s basic_filebuf reaches the kernel through fopen/fopen64 + write/writev + fclose,
 * stdio through open/openat + write + close; all of them are interposed.
 */
#define _GNU_SOURCE
#include <dlfcn.h>
#include <errno.h>
#include <fcntl.h>
#include <stdarg.h>
#include <stdio.h>
#include <stdlib.h>
#include <string.h>
#include <sys/types.h>
#include <sys/uio.h>
#include <unistd.h>

#define MAXCH 8
#define MAXFD 4096

struct chan {
  char name[8];
  char suffix[1024];
  char op[12];      /* fault op or "" */
  int k;
  int err;
  int writes;       /* number of write calls seen so far */
};

static struct chan chans[MAXCH];
static int nchan = -1;
static signed char fd_chan[MAXFD];   /* fd -> channel index + 1 (0 = not a target) */

static int (*real_open)(const char *, int, ...);
static int (*real_openat)(int, const char *, int, ...);
static ssize_t (*real_write)(int, const void *, size_t);
static ssize_t (*real_writev)(int, const struct iovec *, int);
static int (*real_close)(int);
static FILE *(*real_fopen)(const char *, const char *);
static FILE *(*real_fopen64)(const char *, const char *);
static int (*real_fclose)(FILE *);

static void resolve(void) {
  if (real_write != NULL) {
    return;
  }
  real_open = dlsym(RTLD_NEXT, "open");
  real_openat = dlsym(RTLD_NEXT, "openat");
  real_write = dlsym(RTLD_NEXT, "write");
  real_writev = dlsym(RTLD_NEXT, "writev");
  real_close = dlsym(RTLD_NEXT, "close");
  real_fopen = dlsym(RTLD_NEXT, "fopen");
  real_fopen64 = dlsym(RTLD_NEXT, "fopen64");
  real_fclose = dlsym(RTLD_NEXT, "fclose");
}

static void setup(void) {
  if (nchan >= 0) {
    return;
  }
  resolve();
  nchan = 0;
  const char *t = getenv("FAULTIO_TARGETS");
  if (t != NULL) {
    char buf[4096];
    strncpy(buf, t, sizeof(buf) - 1);
    buf[sizeof(buf) - 1] = 0;
    char *save = NULL;
    for (char *tok = strtok_r(buf, ";", &save); tok != NULL && nchan < MAXCH;
         tok = strtok_r(NULL, ";", &save)) {
      char *eq = strchr(tok, '=');
      if (eq == NULL) {
        continue;
      }
      *eq = 0;
      struct chan *c = &chans[nchan++];
      memset(c, 0, sizeof(*c));
      strncpy(c->name, tok, sizeof(c->name) - 1);
      strncpy(c->suffix, eq + 1, sizeof(c->suffix) - 1);
    }
  }
  const char *f = getenv("FAULTIO_FAULTS");
  if (f != NULL) {
    char buf[1024];
    strncpy(buf, f, sizeof(buf) - 1);
    buf[sizeof(buf) - 1] = 0;
    char *save = NULL;
    for (char *tok = strtok_r(buf, ",", &save); tok != NULL; tok = strtok_r(NULL, ",", &save)) {
      char ch[8] = "", op[12] = "";
      int k = 0, err = 0;
      if (sscanf(tok, "%7[^:]:%11[^:]:%d:%d", ch, op, &k, &err) == 4) {
        for (int i = 0; i < nchan; i++) {
          if (strcmp(chans[i].name, ch) == 0) {
            strcpy(chans[i].op, op);
            chans[i].k = k;
            chans[i].err = err;
          }
        }
      }
    }
  }
}

static void logev(const char *fmt, ...) {
  const char *lf = getenv("FAULTIO_LOG");
  if (lf == NULL || lf[0] == 0) {
    return;
  }
  int saved = errno;
  char buf[512];
  va_list ap;
  va_start(ap, fmt);
  int n = vsnprintf(buf, sizeof(buf), fmt, ap);
  va_end(ap);
  int fd = real_open(lf, O_WRONLY | O_CREAT | O_APPEND, 0644);
  if (fd >= 0) {
    if (real_write(fd, buf, n) < 0) {
      /* nothing sensible to do */
    }
    real_close(fd);
  }
  errno = saved;
}

/* channel index + 1 of a path opened for writing, 0 if it is not a target */
static int path_chan(const char *path) {
  setup();
  if (path == NULL) {
    return 0;
  }
  size_t lp = strlen(path);
  for (int i = 0; i < nchan; i++) {
    size_t ls = strlen(chans[i].suffix);
    if (ls > 0 && lp >= ls && strcmp(path + lp - ls, chans[i].suffix) == 0) {
      return i + 1;
    }
  }
  return 0;
}

static int fd_target(int fd) {
  if (fd < 0 || fd >= MAXFD) {
    return 0;
  }
  return fd_chan[fd];
}

static int open_fault(int ci) {
  struct chan *c = &chans[ci - 1];
  if (strcmp(c->op, "open") == 0) {
    logev("{\"e\":\"io\",\"op\":\"open\",\"ch\":\"%s\",\"ok\":0,\"errno\":%d}\n", c->name, c->err);
    errno = c->err;
    return 1;
  }
  return 0;
}

static void opened(int ci, int fd, int err) {
  struct chan *c = &chans[ci - 1];
  if (fd >= 0 && fd < MAXFD) {
    fd_chan[fd] = (signed char)ci;
    c->writes = 0;
  }
  logev("{\"e\":\"io\",\"op\":\"open\",\"ch\":\"%s\",\"ok\":%d,\"errno\":%d}\n", c->name,
        fd >= 0 ? 1 : 0, fd >= 0 ? 0 : err);
}

static int write_mode(const char *mode) {
  return strchr(mode, 'w') != NULL || strchr(mode, 'a') != NULL || strchr(mode, '+') != NULL;
}

FILE *fopen(const char *path, const char *mode) {
  resolve();
  int ci = write_mode(mode) ? path_chan(path) : 0;
  if (ci && open_fault(ci)) {
    return NULL;
  }
  FILE *f = real_fopen(path, mode);
  if (ci) {
    int e = errno;
    opened(ci, f != NULL ? fileno(f) : -1, e);
    errno = e;
  }
  return f;
}

FILE *fopen64(const char *path, const char *mode) {
  resolve();
  int ci = write_mode(mode) ? path_chan(path) : 0;
  if (ci && open_fault(ci)) {
    return NULL;
  }
  FILE *f = real_fopen64(path, mode);
  if (ci) {
    int e = errno;
    opened(ci, f != NULL ? fileno(f) : -1, e);
    errno = e;
  }
  return f;
}

static int do_open(int at, int dirfd, const char *path, int flags, mode_t mode) {
  resolve();
  int ci = (flags & (O_WRONLY | O_RDWR)) ? path_chan(path) : 0;
  if (ci && open_fault(ci)) {
    return -1;
  }
  int fd = at ? real_openat(dirfd, path, flags, mode) : real_open(path, flags, mode);
  if (ci) {
    int e = errno;
    opened(ci, fd, e);
    errno = e;
  }
  return fd;
}

int open(const char *path, int flags, ...) {
  mode_t mode = 0;
  if (flags & (O_CREAT | O_TMPFILE)) {
    va_list ap;
    va_start(ap, flags);
    mode = va_arg(ap, mode_t);
    va_end(ap);
  }
  return do_open(0, 0, path, flags, mode);
}

int open64(const char *path, int flags, ...) {
  mode_t mode = 0;
  if (flags & (O_CREAT | O_TMPFILE)) {
    va_list ap;
    va_start(ap, flags);
    mode = va_arg(ap, mode_t);
    va_end(ap);
  }
  return do_open(0, 0, path, flags | O_LARGEFILE, mode);
}

int openat(int dirfd, const char *path, int flags, ...) {
  mode_t mode = 0;
  if (flags & (O_CREAT | O_TMPFILE)) {
    va_list ap;
    va_start(ap, flags);
    mode = va_arg(ap, mode_t);
    va_end(ap);
  }
  return do_open(1, dirfd, path, flags, mode);
}

/* returns 1 when this write call must fail (errno set) */
static int write_fault(int ci, size_t n) {
  struct chan *c = &chans[ci - 1];
  c->writes++;
  int fail = (strcmp(c->op, "write") == 0 && c->writes == c->k) ||
             (strcmp(c->op, "writefrom") == 0 && c->writes >= c->k);
  if (fail) {
    logev("{\"e\":\"io\",\"op\":\"write\",\"ch\":\"%s\",\"k\":%d,\"n\":%zu,\"ok\":0,\"errno\":%d}\n",
          c->name, c->writes, n, c->err);
    errno = c->err;
    return 1;
  }
  return 0;
}

static void wrote(int ci, size_t n, ssize_t r, int err) {
  struct chan *c = &chans[ci - 1];
  logev("{\"e\":\"io\",\"op\":\"write\",\"ch\":\"%s\",\"k\":%d,\"n\":%zu,\"ok\":%d,\"errno\":%d}\n",
        c->name, c->writes, n, (r >= 0 && (size_t)r == n) ? 1 : 0, r < 0 ? err : 0);
}

ssize_t write(int fd, const void *buf, size_t n) {
  resolve();
  int ci = fd_target(fd);
  if (ci && write_fault(ci, n)) {
    return -1;
  }
  ssize_t r = real_write(fd, buf, n);
  if (ci) {
    int e = errno;
    wrote(ci, n, r, e);
    errno = e;
  }
  return r;
}

ssize_t writev(int fd, const struct iovec *iov, int cnt) {
  resolve();
  int ci = fd_target(fd);
  size_t n = 0;
  if (ci) {
    for (int i = 0; i < cnt; i++) {
      n += iov[i].iov_len;
    }
    if (write_fault(ci, n)) {
      return -1;
    }
  }
  ssize_t r = real_writev(fd, iov, cnt);
  if (ci) {
    int e = errno;
    wrote(ci, n, r, e);
    errno = e;
  }
  return r;
}

static int closed(int ci, int r, int err) {
  struct chan *c = &chans[ci - 1];
  if (strcmp(c->op, "close") == 0) {
    logev("{\"e\":\"io\",\"op\":\"close\",\"ch\":\"%s\",\"ok\":0,\"errno\":%d}\n", c->name, c->err);
    errno = c->err;
    return -1;
  }
  logev("{\"e\":\"io\",\"op\":\"close\",\"ch\":\"%s\",\"ok\":%d,\"errno\":%d}\n", c->name,
        r == 0 ? 1 : 0, r == 0 ? 0 : err);
  errno = err;
  return r;
}

int fclose(FILE *f) {
  resolve();
  int fd = f != NULL ? fileno(f) : -1;
  int ci = fd_target(fd);
  if (ci) {
    fd_chan[fd] = 0;
  }
  int r = real_fclose(f);
  if (ci) {
    int e = errno;
    return closed(ci, r, e) == 0 ? 0 : EOF;
  }
  return r;
}

int close(int fd) {
  resolve();
  int ci = fd_target(fd);
  if (ci) {
    fd_chan[fd] = 0;
  }
  int r = real_close(fd);
  if (ci) {
    int e = errno;
    return closed(ci, r, e);
  }
  return r;
}
