/* shifttime.so — LD_PRELOAD object used by the C14 check (Repro.tla: hidden input `now`).
 *
 * Shifts what the process sees as the current time by $SHIFT_TIME seconds (may be negative):
 * time(), gettimeofday(), clock_gettime(CLOCK_REALTIME / CLOCK_REALTIME_COARSE / CLOCK_TAI), and
 * timespec_get().  Monotonic clocks are left alone.  With SHIFT_TIME unset the object is inert.
 * Used together with TZ settings so that the calendar date, the time of day and the UTC offset a
 * tool could derive from the clock all differ between two runs of the same command.
 */
#define _GNU_SOURCE
#include <dlfcn.h>
#include <stdlib.h>
#include <time.h>
#include <sys/time.h>

static long long shift_value(void) {
  static int known;
  static long long value;
  if (!known) {
    const char *s = getenv("SHIFT_TIME");
    value = s ? atoll(s) : 0;
    known = 1;
  }
  return value;
}

time_t time(time_t *t) {
  static time_t (*real)(time_t *);
  if (!real) real = dlsym(RTLD_NEXT, "time");
  time_t now = real(0) + (time_t)shift_value();
  if (t) *t = now;
  return now;
}

int gettimeofday(struct timeval *restrict tv, void *restrict tz) {
  static int (*real)(struct timeval *, void *);
  if (!real) real = dlsym(RTLD_NEXT, "gettimeofday");
  int rc = real(tv, tz);
  if (rc == 0 && tv) tv->tv_sec += (time_t)shift_value();
  return rc;
}

int clock_gettime(clockid_t clk, struct timespec *ts) {
  static int (*real)(clockid_t, struct timespec *);
  if (!real) real = dlsym(RTLD_NEXT, "clock_gettime");
  int rc = real(clk, ts);
  if (rc == 0 && ts && (clk == CLOCK_REALTIME || clk == CLOCK_REALTIME_COARSE
#ifdef CLOCK_TAI
                        || clk == CLOCK_TAI
#endif
                        )) {
    ts->tv_sec += (time_t)shift_value();
  }
  return rc;
}

int timespec_get(struct timespec *ts, int base) {
  static int (*real)(struct timespec *, int);
  if (!real) real = dlsym(RTLD_NEXT, "timespec_get");
  int rc = real(ts, base);
  if (rc == base && ts && base == TIME_UTC) ts->tv_sec += (time_t)shift_value();
  return rc;
}
